"""AST probes of the `ops` family (C12): decision-critical tokens of rl4co/utils/ops.py.

  opsLoopsReversed        `for s in reversed(shape)` in BOTH `batchify` and `unbatchify` (nesting order)
  opsNumStartsDepotEnvs   the env-name list of `get_num_starts` whose members lose the depot (`num_starts - 1`)
  opsNoDepotStartEnvs     the env-name list of `select_start_nodes` whose members start at index 0 (`% num_loc`)
  opsNoDepotInterleave / opsDepotInterleave   the `arange(...)` of the two generic branches is expanded with
                          `.repeat_interleave(td.shape[0])` (true) / `.repeat(td.shape[0])` (false)
  opsDepotArangeStart, opsDepotModAdd, opsDepotPlus   shape of the depot branch `arange(a0, …) % (num_loc + dm) + c`
                          (source: `arange(num_starts) % num_loc + 1` → 0, 0, 1)
  opsOpCountPerInstance   OP: `num_feasible = feasible.sum(-1, keepdim=True).clamp(min=…)` per instance (true) / reduced over the
                          batch with `.min()` / `.max()` / `.mean()` … (false)
  opsOpClampMin           the constant of OP's `feasible.sum(-1, keepdim=True).clamp(min=1)` (cycle length floor)
  opsOpArgsortStable      OP's `torch.argsort((~feasible).int(), dim=-1, stable=True)` (feasible nodes ascending)
  opsSampleNReplaceCmp    operator of `n_valid_actions < n` in `sample_n_random_actions`

C17 (rl4co/data/dataset.py, models/rl/reinforce/baselines.py, models/rl/common/base.py, tasks/eval.py):
  dsExtraWriteUnconditional   `ExtraKeyDataset.__getitem__`: `data[self.key_name] = self.extra[idx]` is a plain statement of
                              the function body (true) / sits under an `if`, `try`, loop … (false)
  dsExtraIndexShift           … and the index of `self.extra[…]` is `idx` (0), `idx + c` (c) or `idx - c` (-c)
  dsFastTdDirect              `FastTdDataset.__getitems__` is the single statement `return self.data[idx]` (true) / has
                              further statements such as a fast path (false)
  dsFastGenDirect             `TensorDictDatasetFastGeneration.__getitems__` indexes every entry with the index list as given
  dsCollateInOrder            `TensorDictDataset.collate_fn` stacks `[b[key] for b in batch]` (the batch in the order given)
  blRolloutPlainConcat        `RolloutBaseline.rollout` returns `torch.cat` of the per-batch results in loader order (list
                              comprehension, or append-loop + cat) (true) / writes slices of a buffer inside the loop (false)
  blRolloutLoaderPlain        its `DataLoader(dataset, batch_size=…, collate_fn=…)` has no `shuffle`, `drop_last`, `sampler` …
  loaderShufflePassthrough    `RL4COLitModule._dataloader_single` passes `shuffle=shuffle`, `batch_size=batch_size`
  rfCallbackBeforeSuper       `REINFORCE.on_train_epoch_end`: the statement `self.baseline.epoch_callback(…)` comes BEFORE
                              `super().on_train_epoch_end()` (which regenerates and wraps the next training set) (true) / after (false)
  evalCatInOrder              `EvalBase.__call__`: `torch.cat(rewards_list)` / `torch.cat([pad(a) for a in actions_list], 0)`
  evalPadLeft                 the left amount of `pad(action, (0, max_length - action.size(-1)))` (0 = pad on the right)
"true"/"false" are both *recognised* shapes; anything else is a pattern-miss.

The Lean model (`Rl4co/Train/{Batchify,Select,Dataset}.lean`) takes them from `Params`; the C12 theorems unfold the
committed values, so a source edit that changes one of them stops the proofs from compiling.
Anything not recognised is a pattern-miss (committed default + correspondence only).
"""
from __future__ import annotations

import ast

REL = "rl4co/utils/ops.py"


def _lean_str_list(xs) -> str:
    return "[" + ", ".join('"' + x.replace('"', "") + '"' for x in xs) + "]"


def _str_list(node):
    if isinstance(node, (ast.List, ast.Tuple)) and all(isinstance(e, ast.Constant) and isinstance(e.value, str) for e in node.elts):
        vals = [e.value for e in node.elts]
        if all(v.replace("_", "").isalnum() for v in vals):
            return vals
    return None


def _in_lists(fn, subject: str):
    """all string lists L of tests `subject in L` inside fn, in source order"""
    out = []
    for n in ast.walk(fn):
        if (isinstance(n, ast.Compare) and len(n.ops) == 1 and isinstance(n.ops[0], ast.In)
                and ast.unparse(n.left).replace(" ", "") == subject):
            vals = _str_list(n.comparators[0])
            if vals is not None:
                out.append((n.lineno, vals))
    return [v for _, v in sorted(out)]


def register(ex):
    def loops_reversed():
        tree = ex.parse(REL)
        if tree is None:
            return None
        res = []
        for name in ("batchify", "unbatchify"):
            fn = ex.find_function(tree, name)
            if fn is None:
                return None
            loops = [n for n in ast.walk(fn) if isinstance(n, ast.For)]
            if len(loops) != 1:
                return None
            it = ast.unparse(loops[0].iter).replace(" ", "")
            if it == "reversed(shape)":
                res.append(True)
            elif it == "shape":
                res.append(False)
            else:
                return None
        if res[0] != res[1]:
            return None
        return "true" if res[0] else "false"

    def numstarts_list():
        tree = ex.parse(REL)
        fn = ex.find_function(tree, "get_num_starts") if tree else None
        if fn is None:
            return None
        ls = _in_lists(fn, "env_name")
        return _lean_str_list(ls[0]) if len(ls) == 1 else None

    def nodepot_list():
        tree = ex.parse(REL)
        fn = ex.find_function(tree, "select_start_nodes") if tree else None
        if fn is None:
            return None
        ls = _in_lists(fn, "env.name")
        # first list = the no-depot branch, second = the jssp/fjsp NotImplementedError branch
        return _lean_str_list(ls[0]) if len(ls) == 2 and ls[1] == ["jssp", "fjsp"] else None

    ex.probe("opsLoopsReversed", "Bool", "true",
             "utils/ops.py:batchify, unbatchify  `for s in reversed(shape)`", loops_reversed)
    ex.probe("opsNumStartsDepotEnvs", "List String",
             '["cvrp", "cvrptw", "sdvrp", "mtsp", "op", "pctsp", "spctsp"]',
             "utils/ops.py:get_num_starts  `elif env_name in [...]: num_starts - 1`", numstarts_list)
    ex.probe("opsNoDepotStartEnvs", "List String", '["tsp", "atsp", "flp", "mcp"]',
             "utils/ops.py:select_start_nodes  `if env.name in [...]` (no `+ 1`)", nodepot_list)
    def _calls(attr):
        tree = ex.parse(REL)
        fn = ex.find_function(tree, "select_start_nodes") if tree else None
        if fn is None:
            return None
        return [n for n in ast.walk(fn) if isinstance(n, ast.Call) and isinstance(n.func, ast.Attribute) and n.func.attr == attr]

    def clamp_min():
        cs = _calls("clamp")
        if cs is None or len(cs) != 1 or cs[0].args:
            return None
        kws = {k.arg: k.value for k in cs[0].keywords}
        v = kws.get("min")
        if set(kws) != {"min"} or not (isinstance(v, ast.Constant) and type(v.value) is int and v.value >= 0):
            return None
        return str(v.value)

    def argsort_stable():
        cs = _calls("argsort")
        if cs is None or len(cs) != 1:
            return None
        kws = {k.arg: k.value for k in cs[0].keywords}
        if "descending" in kws:
            return None
        v = kws.get("stable")
        if v is None:
            return "false"
        return ("true" if v.value else "false") if isinstance(v, ast.Constant) and isinstance(v.value, bool) else None

    ex.probe("opsOpClampMin", "Nat", "1",
             "utils/ops.py:select_start_nodes (op)  `feasible.sum(-1, keepdim=True).clamp(min=1)`", clamp_min)
    ex.probe("opsOpArgsortStable", "Bool", "true",
             "utils/ops.py:select_start_nodes (op)  `torch.argsort((~feasible).int(), dim=-1, stable=True)`", argsort_stable)
    ex.probe("opsSampleNReplaceCmp", "Cmp", ".lt",
             "utils/ops.py:sample_n_random_actions  `n_valid_actions < n`",
             ex.cmp_probe(REL, "sample_n_random_actions", "n_valid_actions", "n"))

    def _ssn():
        tree = ex.parse(REL)
        return ex.find_function(tree, "select_start_nodes") if tree else None

    def _generic_exprs():
        """the two `selected = (...)` expressions of the generic branches (no-depot first, depot second)"""
        fn = _ssn()
        if fn is None:
            return None
        out = []
        for n in ast.walk(fn):
            if (isinstance(n, ast.Assign) and len(n.targets) == 1 and isinstance(n.targets[0], ast.Name) and n.targets[0].id == "selected"
                    and any(isinstance(c, ast.Call) and ast.unparse(c.func) == "torch.arange" for c in ast.walk(n.value))
                    and any(isinstance(c, ast.BinOp) and isinstance(c.op, ast.Mod) for c in ast.walk(n.value))):
                out.append((n.lineno, n.value))
        out = [v for _, v in sorted(out, key=lambda t: t[0])]
        return out if len(out) == 2 else None

    def _expander(expr):
        """'repeat_interleave' / 'repeat' applied to torch.arange(...) with td.shape[0], and the arange call"""
        for c in ast.walk(expr):
            if (isinstance(c, ast.Call) and isinstance(c.func, ast.Attribute) and c.func.attr in ("repeat_interleave", "repeat")
                    and isinstance(c.func.value, ast.Call) and ast.unparse(c.func.value.func) == "torch.arange"
                    and len(c.args) == 1 and ast.unparse(c.args[0]).replace(" ", "") == "td.shape[0]"):
                return c.func.attr, c.func.value
        return None, None

    def interleave(which):
        def run():
            es = _generic_exprs()
            if es is None:
                return None
            kind, _ = _expander(es[which])
            return None if kind is None else ("true" if kind == "repeat_interleave" else "false")
        return run

    def _arange_start(call):
        pos = [a for a in call.args]
        if len(pos) == 1 and ast.unparse(pos[0]) == "num_starts":
            return 0
        if (len(pos) == 2 and isinstance(pos[0], ast.Constant) and type(pos[0].value) is int and pos[0].value >= 0
                and ast.unparse(pos[1]).replace(" ", "") == f"num_starts+{pos[0].value}"):
            return pos[0].value
        return None

    def _depot_shape():
        es = _generic_exprs()
        if es is None:
            return None
        e = es[1]
        plus = 0
        if isinstance(e, ast.BinOp) and isinstance(e.op, ast.Add) and isinstance(e.right, ast.Constant) and type(e.right.value) is int:
            plus, e = e.right.value, e.left
        if not (isinstance(e, ast.BinOp) and isinstance(e.op, ast.Mod)):
            return None
        _, ar = _expander(e.left)
        if ar is None:
            return None
        a0 = _arange_start(ar)
        m = ast.unparse(e.right).replace(" ", "")
        if m == "num_loc":
            dm = 0
        elif isinstance(e.right, ast.BinOp) and isinstance(e.right.op, ast.Add) and ast.unparse(e.right.left) == "num_loc" \
                and isinstance(e.right.right, ast.Constant) and type(e.right.right.value) is int and e.right.right.value >= 0:
            dm = e.right.right.value
        else:
            return None
        if a0 is None or plus < 0:
            return None
        return a0, dm, plus

    def depot_field(k):
        def run():
            sh = _depot_shape()
            return None if sh is None else str(sh[k])
        return run

    def op_count_per_instance():
        fn = _ssn()
        if fn is None:
            return None
        for n in ast.walk(fn):
            if isinstance(n, ast.Assign) and len(n.targets) == 1 and ast.unparse(n.targets[0]) == "num_feasible":
                src = ast.unparse(n.value).replace(" ", "")
                if src.startswith("feasible.sum(-1,keepdim=True).clamp(") and src.count("(") == 2:
                    return "true"
                if src.startswith("feasible.sum("):
                    return "false"
                return None
        return None

    ex.probe("opsNoDepotInterleave", "Bool", "true",
             "utils/ops.py:select_start_nodes (tsp/atsp/flp/mcp)  `torch.arange(num_starts).repeat_interleave(td.shape[0])`", interleave(0))
    ex.probe("opsDepotInterleave", "Bool", "true",
             "utils/ops.py:select_start_nodes (depot envs)  `torch.arange(num_starts).repeat_interleave(td.shape[0])`", interleave(1))
    ex.probe("opsDepotArangeStart", "Nat", "0", "utils/ops.py:select_start_nodes (depot envs)  first argument of `torch.arange`", depot_field(0))
    ex.probe("opsDepotModAdd", "Nat", "0", "utils/ops.py:select_start_nodes (depot envs)  `% (num_loc + dm)`", depot_field(1))
    ex.probe("opsDepotPlus", "Nat", "1", "utils/ops.py:select_start_nodes (depot envs)  `… % num_loc + 1`", depot_field(2))
    ex.probe("opsOpCountPerInstance", "Bool", "true",
             "utils/ops.py:select_start_nodes (op)  `num_feasible = feasible.sum(-1, keepdim=True).clamp(min=1)` (per instance)", op_count_per_instance)

    # -------------------------------------------------------------------- round 2: layout / selector / gather tokens
    DEC = "rl4co/utils/decoding.py"
    AMD = "rl4co/models/zoo/am/decoder.py"

    def _rearr_patterns(rel, qual):
        tree = ex.parse(rel)
        fn = ex.find_function(tree, qual) if tree else None
        if fn is None:
            return None
        out = []
        for n in ast.walk(fn):
            if (isinstance(n, ast.Call) and ast.unparse(n.func) == "rearrange" and len(n.args) >= 2
                    and isinstance(n.args[1], ast.Constant) and isinstance(n.args[1].value, str)):
                out.append((n.lineno, " ".join(n.args[1].value.split())))
        return [v for _, v in sorted(out)]

    def replica_major(rel, qual, want, other, count):
        """all `rearrange` patterns of the function are `want` (true) / one is the instance-major `other` (false)"""
        def run():
            ps = _rearr_patterns(rel, qual)
            if ps is not None and not ps and count == 1:
                # no rearrange at all: a plain row-major flatten of the [batch, n] result is the instance-major layout
                tree = ex.parse(rel)
                fn = ex.find_function(tree, qual)
                flat = [n for n in ast.walk(fn) if isinstance(n, ast.Call) and isinstance(n.func, ast.Attribute)
                        and ((n.func.attr in ("reshape", "view") and [ast.unparse(a) for a in n.args] == ["-1"])
                             or (n.func.attr == "flatten" and not n.args))
                        and ast.unparse(n.func.value).startswith("selected")]
                return "false" if flat else None
            if ps is None or len(ps) != count:
                return None
            if all(p_ == want for p_ in ps):
                return "true"
            if all(p_ in (want, other) for p_ in ps):
                return "false"
            return None
        return run

    def cache_uses_batchify():
        tree = ex.parse(AMD)
        fn = ex.find_function(tree, "PrecomputedCache.batchify") if tree else None
        if fn is None:
            return None
        apps = [n for n in ast.walk(fn) if isinstance(n, ast.Call) and isinstance(n.func, ast.Attribute) and n.func.attr == "append"
                and len(n.args) == 1 and isinstance(n.args[0], ast.Call)]
        if not apps:
            return None
        ok = all(ast.unparse(a.args[0].func) == "batchify" and [ast.unparse(x) for x in a.args[0].args] == ["emb", "num_starts"]
                 and not a.args[0].keywords for a in apps)
        return "true" if ok else "false"

    def am_static_unbatchify():
        tree = ex.parse(AMD)
        fn = ex.find_function(tree, "AttentionModelDecoder.forward") if tree else None
        if fn is None:
            return None
        for n in ast.walk(fn):
            if isinstance(n, ast.Assign) and len(n.targets) == 1 and ast.unparse(n.targets[0]) == "td" and isinstance(n.value, ast.Call):
                c = n.value
                if ast.unparse(c.func) == "unbatchify" and [ast.unparse(a) for a in c.args] == ["td", "num_starts"]:
                    return "true"
                return "false"
        return None

    def hook_selector(qual):
        """the default forced-start call of a pre_decoder_hook is the ENV METHOD `env.select_start_nodes(td, num_starts=…)`
        (true) / some other callable such as the generic helper (false)"""
        def run():
            tree = ex.parse(DEC)
            fn = ex.find_function(tree, qual) if tree else None
            if fn is None:
                return None
            cands = []
            for n in ast.walk(fn):
                if (isinstance(n, ast.Assign) and len(n.targets) == 1 and ast.unparse(n.targets[0]) == "action"
                        and isinstance(n.value, ast.Call) and ast.unparse(n.value.func) != "self.select_start_nodes_fn"):
                    cands.append(n.value)
            if len(cands) != 1:
                return None
            c = cands[0]
            if ast.unparse(c.func) == "env.select_start_nodes" and len(c.args) == 1 and ast.unparse(c.args[0]) == "td" \
                    and len(c.keywords) == 1 and c.keywords[0].arg == "num_starts":
                return "true"
            return "false"
        return run

    def _gbi():
        tree = ex.parse(REL)
        return ex.find_function(tree, "gather_by_index") if tree else None

    def gather_default(name, ty):
        def run():
            fn = _gbi()
            if fn is None:
                return None
            args = fn.args.args
            defaults = fn.args.defaults
            named = dict(zip([a.arg for a in args[len(args) - len(defaults):]], defaults))
            v = named.get(name)
            if not isinstance(v, ast.Constant):
                return None
            if ty is bool and isinstance(v.value, bool):
                return "true" if v.value else "false"
            if ty is int and type(v.value) is int and v.value >= 0:
                return str(v.value)
            return None
        return run

    def gather_squeeze_size():
        fn = _gbi()
        if fn is None:
            return None
        for n in ast.walk(fn):
            if isinstance(n, ast.Assign) and len(n.targets) == 1 and ast.unparse(n.targets[0]) == "squeeze" and isinstance(n.value, ast.BoolOp) \
                    and isinstance(n.value.op, ast.And) and len(n.value.values) == 2:
                a, b = n.value.values
                if ast.unparse(b) != "squeeze":
                    a, b = b, a
                if (ast.unparse(b) == "squeeze" and isinstance(a, ast.Compare) and len(a.ops) == 1 and isinstance(a.ops[0], ast.Eq)
                        and ast.unparse(a.left).replace(" ", "") == "idx.size(dim)" and isinstance(a.comparators[0], ast.Constant)
                        and type(a.comparators[0].value) is int and a.comparators[0].value >= 0):
                    return str(a.comparators[0].value)
        return None

    ex.probe("opsOpReplicaMajor", "Bool", "true", "utils/ops.py:select_start_nodes (op)  `rearrange(selected, \"b n -> (n b)\")`",
             replica_major(REL, "select_start_nodes", "b n -> (n b)", "b n -> (b n)", 1))
    ex.probe("opsSampleNReplicaMajor", "Bool", "true", "utils/ops.py:sample_n_random_actions  `rearrange(selected, \"b n -> (n b)\")`",
             replica_major(REL, "sample_n_random_actions", "b n -> (n b)", "b n -> (b n)", 1))
    ex.probe("amFlattenReplicaMajor", "Bool", "true",
             "am/decoder.py:AttentionModelDecoder.forward  `rearrange(logits|mask, \"b s l -> (s b) l\")`",
             replica_major(AMD, "AttentionModelDecoder.forward", "b s l -> (s b) l", "b s l -> (b s) l", 2))
    ex.probe("amStaticUnbatchify", "Bool", "true", "am/decoder.py:AttentionModelDecoder.forward  `td = unbatchify(td, num_starts)`",
             am_static_unbatchify)
    ex.probe("amCacheUsesBatchify", "Bool", "true", "am/decoder.py:PrecomputedCache.batchify  `new_embs.append(batchify(emb, num_starts))`",
             cache_uses_batchify)
    ex.probe("decMultistartEnvSelect", "Bool", "true",
             "utils/decoding.py:DecodingStrategy.pre_decoder_hook  `action = env.select_start_nodes(td, num_starts=self.num_starts)`",
             hook_selector("DecodingStrategy.pre_decoder_hook"))
    ex.probe("decBeamEnvSelect", "Bool", "true",
             "utils/decoding.py:BeamSearch.pre_decoder_hook  `action = env.select_start_nodes(td, num_starts=self.beam_width)`",
             hook_selector("BeamSearch.pre_decoder_hook"))
    ex.probe("opsGatherSqueezeDefault", "Bool", "true", "utils/ops.py:gather_by_index  default `squeeze=True`", gather_default("squeeze", bool))
    ex.probe("opsGatherDimDefault", "Nat", "1", "utils/ops.py:gather_by_index  default `dim=1`", gather_default("dim", int))
    ex.probe("opsGatherSqueezeSize", "Nat", "1", "utils/ops.py:gather_by_index  `squeeze = idx.size(dim) == 1 and squeeze`", gather_squeeze_size)

    # ------------------------------------------------------------------------------------------ C17
    DS = "rl4co/data/dataset.py"
    BL = "rl4co/models/rl/reinforce/baselines.py"
    LM = "rl4co/models/rl/common/base.py"
    EV = "rl4co/tasks/eval.py"

    def _fn(rel, qual):
        tree = ex.parse(rel)
        return ex.find_function(tree, qual) if tree else None

    def _body(fn):
        """statements of a function without its docstring"""
        b = list(fn.body)
        if b and isinstance(b[0], ast.Expr) and isinstance(getattr(b[0], "value", None), ast.Constant) and isinstance(b[0].value.value, str):
            b = b[1:]
        return b

    def _u(n):
        return ast.unparse(n).replace(" ", "").replace('"', "'")

    def _find_extra_assign(fn):
        """(assign node, is_top_level) of `data[self.key_name] = self.extra[...]`"""
        for top in _body(fn):
            for n in ast.walk(top):
                if (isinstance(n, ast.Assign) and len(n.targets) == 1 and _u(n.targets[0]) == "data[self.key_name]"
                        and isinstance(n.value, ast.Subscript) and _u(n.value.value) == "self.extra"):
                    return n, (n is top)
        return None, None

    def extra_uncond():
        fn = _fn(DS, "ExtraKeyDataset.__getitem__")
        if fn is None:
            return None
        n, top = _find_extra_assign(fn)
        if n is None:
            return None
        return "true" if top else "false"

    def extra_shift():
        fn = _fn(DS, "ExtraKeyDataset.__getitem__")
        if fn is None:
            return None
        n, _ = _find_extra_assign(fn)
        if n is None:
            return None
        i = n.value.slice
        if _u(i) == "idx":
            return "0"
        if isinstance(i, ast.BinOp) and _u(i.left) == "idx" and isinstance(i.right, ast.Constant) and type(i.right.value) is int:
            if isinstance(i.op, ast.Add):
                return str(i.right.value)
            if isinstance(i.op, ast.Sub):
                return f"({-i.right.value})" if i.right.value else "0"
        return None

    def fasttd_direct():
        fn = _fn(DS, "FastTdDataset.__getitems__")
        if fn is None:
            return None
        b = _body(fn)
        if len(b) == 1 and isinstance(b[0], ast.Return) and b[0].value is not None and _u(b[0].value) == "self.data[idx]":
            return "true"
        if any(isinstance(x, ast.Return) for x in ast.walk(fn)):
            return "false"
        return None

    def fastgen_direct():
        fn = _fn(DS, "TensorDictDatasetFastGeneration.__getitems__")
        if fn is None:
            return None
        b = _body(fn)
        comps = [n for n in ast.walk(fn) if isinstance(n, ast.DictComp)]
        if len(b) == 1 and isinstance(b[0], ast.Return) and len(comps) == 1:
            c = comps[0]
            if _u(c.value) == "item[index]" and _u(c.generators[0].iter) == "self.data.items()" and not c.generators[0].ifs:
                return "true"
            return "false"
        if any(isinstance(x, ast.Return) for x in ast.walk(fn)):
            return "false"
        return None

    def collate_in_order():
        fn = _fn(DS, "TensorDictDataset.collate_fn")
        if fn is None:
            return None
        lcs = [n for n in ast.walk(fn) if isinstance(n, ast.ListComp)]
        if len(lcs) != 1:
            return None
        lc = lcs[0]
        if _u(lc.elt) == "b[key]" and len(lc.generators) == 1 and not lc.generators[0].ifs:
            return "true" if _u(lc.generators[0].iter) == "batch" else "false"
        return None

    def rollout_concat():
        fn = _fn(BL, "RolloutBaseline.rollout")
        if fn is None:
            return None
        loops = [n for n in ast.walk(fn) if isinstance(n, ast.For)]
        # (a) torch.cat([eval_policy(batch) for batch in dl], 0)
        for n in ast.walk(fn):
            if (isinstance(n, ast.Call) and _u(n.func) == "torch.cat" and n.args and isinstance(n.args[0], ast.ListComp)):
                lc = n.args[0]
                dim0 = (len(n.args) == 1 and not n.keywords) or (len(n.args) == 2 and _u(n.args[1]) == "0") or \
                    (len(n.args) == 1 and len(n.keywords) == 1 and n.keywords[0].arg == "dim" and _u(n.keywords[0].value) == "0")
                if (len(lc.generators) == 1 and _u(lc.generators[0].iter) == "dl" and not lc.generators[0].ifs and dim0
                        and isinstance(lc.elt, ast.Call) and len(lc.elt.args) == 1 and _u(lc.elt.args[0]) == _u(lc.generators[0].target)):
                    return "true"
                return "false"
        # (b) a loop writing slices of a preallocated buffer: alignment then hangs on index arithmetic
        for lp in loops:
            for n in ast.walk(lp):
                if isinstance(n, ast.Assign) and any(isinstance(t, ast.Subscript) for t in n.targets):
                    return "false"
        return None

    def rollout_loader_plain():
        fn = _fn(BL, "RolloutBaseline.rollout")
        if fn is None:
            return None
        calls = [n for n in ast.walk(fn) if isinstance(n, ast.Call) and _u(n.func) == "DataLoader"]
        if len(calls) != 1:
            return None
        c = calls[0]
        kws = {k.arg: _u(k.value) for k in c.keywords}
        if len(c.args) == 1 and _u(c.args[0]) == "dataset" and set(kws) == {"batch_size", "collate_fn"} \
                and kws["batch_size"] == "batch_size" and kws["collate_fn"] == "dataset.collate_fn":
            return "true"
        return "false"

    def shuffle_passthrough():
        fn = _fn(LM, "RL4COLitModule._dataloader_single")
        if fn is None:
            return None
        calls = [n for n in ast.walk(fn) if isinstance(n, ast.Call) and _u(n.func) == "DataLoader"]
        if len(calls) != 1:
            return None
        c = calls[0]
        kws = {k.arg: _u(k.value) for k in c.keywords}
        if not (len(c.args) == 1 and _u(c.args[0]) == "dataset"):
            return None
        ok = kws.get("shuffle") == "shuffle" and kws.get("batch_size") == "batch_size" and kws.get("collate_fn") == "dataset.collate_fn" \
            and not ({"drop_last", "sampler", "batch_sampler"} & set(kws))
        return "true" if ok else "false"

    def _eval_cats():
        fn = _fn(EV, "EvalBase.__call__")
        if fn is None:
            return None, None
        rew = act = None
        for n in ast.walk(fn):
            if isinstance(n, ast.Call) and _u(n.func) == "torch.cat" and n.args:
                if _u(n.args[0]) == "rewards_list":
                    rew = n
                elif isinstance(n.args[0], ast.ListComp) and _u(n.args[0].generators[0].iter) == "actions_list":
                    act = n
        return rew, act

    def eval_cat_in_order():
        rew, act = _eval_cats()
        if rew is None or act is None:
            return None
        lc = act.args[0]
        ok = (len(lc.generators) == 1 and not lc.generators[0].ifs and len(act.args) == 2 and _u(act.args[1]) == "0"
              and len(rew.args) == 1 and not rew.keywords)
        return "true" if ok else "false"

    def eval_pad_left():
        _, act = _eval_cats()
        if act is None:
            return None
        elt = act.args[0].elt
        if not (isinstance(elt, ast.Call) and _u(elt.func).endswith("pad") and len(elt.args) == 2 and isinstance(elt.args[1], ast.Tuple)
                and len(elt.args[1].elts) == 2):
            return None
        l, r = elt.args[1].elts
        tgt = _u(act.args[0].generators[0].target)
        if _u(elt.args[0]) != tgt:
            return None
        if isinstance(l, ast.Constant) and type(l.value) is int and l.value >= 0 and _u(r) == f"max_length-{tgt}.size(-1)":
            return str(l.value)
        if isinstance(r, ast.Constant) and type(r.value) is int and r.value == 0 and _u(l) == f"max_length-{tgt}.size(-1)":
            return "1"  # everything padded on the left: encoded as a non-zero left amount
        return None

    def init_rows_in_order():
        fn = _fn(DS, "TensorDictDataset.__init__")
        if fn is None:
            return None
        lcs = [n for n in ast.walk(fn) if isinstance(n, ast.ListComp)]
        if len(lcs) != 1 or len(lcs[0].generators) != 1 or lcs[0].generators[0].ifs:
            return None
        lc = lcs[0]
        if not (isinstance(lc.elt, ast.DictComp) and _u(lc.elt.key) == "key" and _u(lc.elt.generators[0].iter) == "td.items()"):
            return None
        i = _u(lc.generators[0].target)
        ok = _u(lc.elt.value) == f"value[{i}]" and _u(lc.generators[0].iter) == "range(self.data_len)"
        return "true" if ok else "false"

    ex.probe("dsInitRowsInOrder", "Bool", "true",
             "data/dataset.py:TensorDictDataset.__init__  `[{key: value[i] for key, value in td.items()} for i in range(self.data_len)]`", init_rows_in_order)
    ex.probe("dsExtraWriteUnconditional", "Bool", "true",
             "data/dataset.py:ExtraKeyDataset.__getitem__  `data[self.key_name] = self.extra[idx]` as a plain body statement", extra_uncond)
    ex.probe("dsExtraIndexShift", "Int", "0", "data/dataset.py:ExtraKeyDataset.__getitem__  index of `self.extra[idx]`", extra_shift)
    ex.probe("dsFastTdDirect", "Bool", "true", "data/dataset.py:FastTdDataset.__getitems__  is `return self.data[idx]`", fasttd_direct)
    ex.probe("dsFastGenDirect", "Bool", "true",
             "data/dataset.py:TensorDictDatasetFastGeneration.__getitems__  `{key: item[index] for key, item in self.data.items()}`", fastgen_direct)
    ex.probe("dsCollateInOrder", "Bool", "true",
             "data/dataset.py:TensorDictDataset.collate_fn  `torch.stack([b[key] for b in batch])`", collate_in_order)
    ex.probe("blRolloutPlainConcat", "Bool", "true",
             "reinforce/baselines.py:RolloutBaseline.rollout  `torch.cat([eval_policy(batch) for batch in dl], 0)`", rollout_concat)
    ex.probe("blRolloutLoaderPlain", "Bool", "true",
             "reinforce/baselines.py:RolloutBaseline.rollout  `DataLoader(dataset, batch_size=batch_size, collate_fn=dataset.collate_fn)`", rollout_loader_plain)
    ex.probe("loaderShufflePassthrough", "Bool", "true",
             "rl/common/base.py:RL4COLitModule._dataloader_single  `DataLoader(dataset, batch_size=batch_size, shuffle=shuffle, …)`", shuffle_passthrough)
    ex.probe("evalCatInOrder", "Bool", "true",
             "tasks/eval.py:EvalBase.__call__  `torch.cat(rewards_list)`, `torch.cat([pad(a) for a in actions_list], 0)`", eval_cat_in_order)
    ex.probe("evalPadLeft", "Nat", "0",
             "tasks/eval.py:EvalBase.__call__  `pad(action, (0, max_length - action.size(-1)))`", eval_pad_left)

    def rf_callback_before_super():
        fn = _fn("rl4co/models/rl/reinforce/reinforce.py", "REINFORCE.on_train_epoch_end")
        if fn is None:
            return None
        cb = sup = None
        for k, st in enumerate(_body(fn)):
            src = _u(st)
            if "self.baseline.epoch_callback(" in src and cb is None:
                cb = k
            if "super().on_train_epoch_end()" in src and sup is None:
                sup = k
        if cb is None or sup is None or cb == sup:
            return None
        return "true" if cb < sup else "false"

    ex.probe("rfCallbackBeforeSuper", "Bool", "true",
             "rl/reinforce/reinforce.py:REINFORCE.on_train_epoch_end  `self.baseline.epoch_callback(…)` before `super().on_train_epoch_end()`",
             rf_callback_before_super)

    # ------------------------------------------------------------- round 6: the zoo's own replication sites / rollout functions
    def replication(rel, qual, target):
        """the multi-start replication of `target` inside `qual` goes through `batchify(x, <n>)` (start-major: copy j of
        instance b at row j·B+b) (true) / through an instance-major form — `repeat_interleave`, `repeat`, `expand`+`reshape` — (false)"""
        def run():
            fn = _fn(rel, qual)
            if fn is None:
                return None
            rhs = []
            for n in ast.walk(fn):
                if isinstance(n, ast.Assign) and len(n.targets) == 1 and _u(n.targets[0]) == target:
                    rhs.append(n.value)
                if isinstance(n, ast.Return) and n.value is not None and target == "<return>":
                    rhs.append(n.value)
            verdicts = []
            for v in rhs:
                calls = [c for c in ast.walk(v) if isinstance(c, ast.Call)]
                if any(_u(c.func) == "batchify" and len(c.args) == 2 for c in calls):
                    verdicts.append(True)
                elif any(isinstance(c.func, ast.Attribute) and c.func.attr in ("repeat_interleave", "repeat", "expand", "tile") for c in calls) \
                        or any(_u(c.func) in ("torch.repeat_interleave", "torch.tile") for c in calls):
                    verdicts.append(False)
            if not verdicts:
                return None
            return "true" if all(verdicts) else "false"
        return run

    def eval_mode(rel, qual, argpos):
        """the rollout function puts the policy it is given into eval mode (`<policy>.eval()` as a statement of its body)
        (true) / evaluates and concatenates over a loader without doing so (false)"""
        def run():
            fn = _fn(rel, qual)
            if fn is None:
                return None
            args = [a.arg for a in fn.args.args]
            if len(args) <= argpos:
                return None
            pol = args[argpos]
            for st in _body(fn):
                if isinstance(st, ast.Expr) and isinstance(st.value, ast.Call) and _u(st.value.func) == f"{pol}.eval" and not st.value.args:
                    return "true"
                if isinstance(st, ast.Assign) and isinstance(st.value, ast.Call) and _u(st.value.func) == f"{pol}.eval":
                    return "true"
            has_loader = any(isinstance(c, ast.Call) and _u(c.func) == "DataLoader" for c in ast.walk(fn))
            return "false" if has_loader else None
        return run

    def mdam_concat():
        fn = _fn("rl4co/models/zoo/mdam/model.py", "rollout")
        if fn is None:
            return None
        for n in ast.walk(fn):
            if isinstance(n, ast.Call) and _u(n.func) == "torch.cat" and n.args and isinstance(n.args[0], ast.ListComp):
                lc = n.args[0]
                ok = (len(lc.generators) == 1 and _u(lc.generators[0].iter) == "dl" and not lc.generators[0].ifs
                      and len(n.args) == 2 and _u(n.args[1]) == "0")
                calls = [c for c in ast.walk(fn) if isinstance(c, ast.Call) and _u(c.func) == "DataLoader"]
                plain = len(calls) == 1 and {k.arg for k in calls[0].keywords} == {"batch_size", "collate_fn"}
                return "true" if ok and plain else "false"
        return None

    ex.probe("l2dHiddenUsesBatchify", "Bool", "true",
             "zoo/l2d/decoder.py:L2DActor.pre_decoder_hook  `hidden = tuple(map(lambda x: batchify(x, num_starts), hidden))`",
             replication("rl4co/models/zoo/l2d/decoder.py", "L2DActor.pre_decoder_hook", "hidden"))
    ex.probe("narIndexUsesBatchify", "Bool", "true",
             "constructive/nonautoregressive/decoder.py:_multistart_batched_index  `return batchify(arr, num_starts)`",
             replication("rl4co/models/common/constructive/nonautoregressive/decoder.py", "_multistart_batched_index", "<return>"))
    ex.probe("matnetTdUsesBatchify", "Bool", "true", "zoo/matnet/policy.py:MultiStageFFSPPolicy.pre_forward  `td = batchify(td, num_starts)`",
             replication("rl4co/models/zoo/matnet/policy.py", "pre_forward", "td"))
    ex.probe("easTdUsesBatchify", "Bool", "true", "zoo/eas/decoder.py:forward_eas  `td = batchify(td, num_starts + 1)`",
             replication("rl4co/models/zoo/eas/decoder.py", "forward_eas", "td"))
    ex.probe("blRolloutEvalMode", "Bool", "true", "reinforce/baselines.py:RolloutBaseline.rollout  `policy.eval()`",
             eval_mode(BL, "RolloutBaseline.rollout", 1))
    ex.probe("mdamRolloutEvalMode", "Bool", "true", "zoo/mdam/model.py:rollout  `model.eval()`",
             eval_mode("rl4co/models/zoo/mdam/model.py", "rollout", 1))
    ex.probe("mdamRolloutPlainConcat", "Bool", "true",
             "zoo/mdam/model.py:rollout  `DataLoader(dataset, batch_size=…, collate_fn=…)`, `torch.cat([eval_model(batch) for batch in dl], 0)`", mdam_concat)

    def fjsp_starts_delegate():
        """`FJSPEnv.select_start_nodes` (inherited by JSSPEnv) is `return sample_n_random_actions(td, num_starts)` (true) /
        draws itself with `torch.multinomial(…)` (false)"""
        fn = _fn("rl4co/envs/scheduling/fjsp/env.py", "FJSPEnv.select_start_nodes")
        if fn is None:
            return None
        b = _body(fn)
        if len(b) == 1 and isinstance(b[0], ast.Return) and isinstance(b[0].value, ast.Call) \
                and _u(b[0].value.func) == "sample_n_random_actions" and [_u(a) for a in b[0].value.args] == ["td", "num_starts"]:
            return "true"
        if any(isinstance(c, ast.Call) and _u(c.func).endswith("multinomial") for c in ast.walk(fn)):
            return "false"
        return None

    ex.probe("fjspStartsDelegate", "Bool", "true",
             "envs/scheduling/fjsp/env.py:FJSPEnv.select_start_nodes  `return sample_n_random_actions(td, num_starts)`", fjsp_starts_delegate)
