"""Probes of the selection family (FLP / MCP / DPP+MDPP): the termination comparison `i >= quota - 1`
of each `_step`.  The Lean models take the operator from `Params.<name>`; the C08/C02 theorems need it
to be `.ge` (the instance proofs unfold it), so flipping it in the source breaks the proofs."""


def register(ex):
    ex.probe("flpDoneCmp", "Cmp", ".ge", "flp/env.py:_step  `td['i'] >= td['to_choose'] - 1`",
             ex.cmp_probe("rl4co/envs/graph/flp/env.py", "FLPEnv._step", "td['i']", "td['to_choose'] - 1"))
    ex.probe("mcpDoneCmp", "Cmp", ".ge", "mcp/env.py:_step  `td['i'] >= td['n_sets_to_choose'] - 1`",
             ex.cmp_probe("rl4co/envs/graph/mcp/env.py", "MCPEnv._step", "td['i']", "td['n_sets_to_choose'] - 1"))
    ex.probe("dppDoneCmp", "Cmp", ".ge", "dpp/env.py:_step  `td['i'] >= self.max_decaps - 1`",
             ex.cmp_probe("rl4co/envs/eda/dpp/env.py", "DPPEnv._step", "td['i']", "self.max_decaps - 1"))
