"""Probes of the selection family (FLP / MCP / DPP+MDPP).

Every decision-critical operator / constant / index expression of `_reset`, `_step` and `_get_reward` that
the Lean models take as a parameter (`Rl4co.Params.<name>`); each is unfolded by a proof (listed in the
doc string), so a one-token source edit breaks a proof obligation at `lake build`.  A probe that does
not find its statement shape returns None (pattern-miss → committed default, never an alarm).
"""
import ast

FLP = "rl4co/envs/graph/flp/env.py"
MCP = "rl4co/envs/graph/mcp/env.py"
DPP = "rl4co/envs/eda/dpp/env.py"
MDPP = "rl4co/envs/eda/mdpp/env.py"


def register(ex):
    def fn_of(rel, qual):
        tree = ex.parse(rel)
        return ex.find_function(tree, qual) if tree else None

    # ---- termination test `td["i"] >= <quota> - 1` : operator and offset --------------------------------
    def done_parts(rel, qual, quota_txt):
        f = fn_of(rel, qual)
        if f is None:
            return None
        q = quota_txt.replace(" ", "").replace('"', "'")
        hits = []
        for n in ast.walk(f):
            if isinstance(n, ast.Compare) and len(n.ops) == 1 and type(n.ops[0]) in ex.CMP and ex.norm(n.left) == "td['i']":
                r = n.comparators[0]
                if isinstance(r, ast.BinOp) and isinstance(r.op, ast.Sub) and ex.norm(r.left) == q \
                        and isinstance(r.right, ast.Constant) and isinstance(r.right.value, int):
                    hits.append((ex.CMP[type(n.ops[0])], r.right.value))
                elif ex.norm(r) == q:
                    hits.append((ex.CMP[type(n.ops[0])], 0))
        return hits[0] if len(hits) == 1 else None

    def done_cmp(rel, qual, quota_txt):
        def run():
            h = done_parts(rel, qual, quota_txt)
            return "." + h[0] if h else None
        return run

    def done_off(rel, qual, quota_txt):
        def run():
            h = done_parts(rel, qual, quota_txt)
            return str(h[1]) if h else None
        return run

    for nm, rel, qual, qt, src in [("flp", FLP, "FLPEnv._step", "td['to_choose']", "flp/env.py"),
                                   ("mcp", MCP, "MCPEnv._step", "td['n_sets_to_choose']", "mcp/env.py"),
                                   ("dpp", DPP, "DPPEnv._step", "self.max_decaps", "dpp/env.py")]:
        ex.probe(f"{nm}DoneCmp", "Cmp", ".ge", f"{src}:_step  `td['i'] >= {qt} - 1` (operator; unfolded by `{nm.capitalize()}.view.step_done`)",
                 done_cmp(rel, qual, qt))
        ex.probe(f"{nm}DoneOffset", "Int", "1", f"{src}:_step  `td['i'] >= {qt} - 1` (the constant; unfolded by `{nm.capitalize()}.view.step_done`)",
                 done_off(rel, qual, qt))

    # ---- FLP: which axis the gathered rows are reduced over, and which axis is gathered -------------------
    def call_int_arg(rel, qual, method, kw, pos):
        """integer argument (`kw=` or positional index `pos`) of the single call `.method(...)` in `qual`"""
        def run():
            f = fn_of(rel, qual)
            if f is None:
                return None
            hits = []
            for n in ast.walk(f):
                if isinstance(n, ast.Call) and isinstance(n.func, ast.Attribute) and n.func.attr == method:
                    v = None
                    for k in n.keywords:
                        if k.arg == kw and isinstance(k.value, ast.Constant):
                            v = k.value.value
                    if v is None and len(n.args) > pos and isinstance(n.args[pos], ast.Constant):
                        v = n.args[pos].value
                    if isinstance(v, int):
                        hits.append(v)
            return str(hits[0]) if len(hits) == 1 else None
        return run

    ex.probe("flpStepMinDim", "Nat", "1", "flp/env.py:_step  `.view(B, -1, n).min(dim=1)` — axis of the gathered rows "
             "(unfolded by `Flp.curMin_eq_nearest`)", call_int_arg(FLP, "FLPEnv._step", "min", "dim", 0))
    ex.probe("flpRewardMinDim", "Nat", "1", "flp/env.py:_get_reward  `.view(B, -1, n).min(1)` (unfolded by `Flp.rewardMin_eq_nearest`)",
             call_int_arg(FLP, "FLPEnv._get_reward", "min", "dim", 0))

    def gather_dim(qual):
        def run():
            f = fn_of(FLP, qual)
            if f is None:
                return None
            hits = []
            for n in ast.walk(f):
                if isinstance(n, ast.Call) and ex.norm(n.func) == "gather_by_index" and n.args \
                        and ex.norm(n.args[0]) == "orig_distances":
                    v = 1  # default of gather_by_index
                    for k in n.keywords:
                        if k.arg == "dim":
                            v = k.value.value if isinstance(k.value, ast.Constant) else None
                    if len(n.args) > 2:
                        v = n.args[2].value if isinstance(n.args[2], ast.Constant) else None
                    hits.append(v)
            return str(hits[0]) if len(hits) == 1 and isinstance(hits[0], int) else None
        return run

    ex.probe("flpStepGatherDim", "Nat", "1", "flp/env.py:_step  `gather_by_index(orig_distances, idx)` gathers ROWS (dim=1) of the "
             "chosen facilities (unfolded by `Flp.curMin_eq_nearest`)", gather_dim("FLPEnv._step"))
    ex.probe("flpRewardGatherDim", "Nat", "1", "flp/env.py:_get_reward  `gather_by_index(orig_distances, idx)` (unfolded by "
             "`Flp.rewardMin_eq_nearest`)", gather_dim("FLPEnv._get_reward"))

    # ---- MCP: item ids are 1-based: column 0 of the scatter target is dropped ----------------------------
    def slice_lower(qual):
        def run():
            f = fn_of(MCP, qual)
            if f is None:
                return None
            hits = []
            for n in ast.walk(f):
                if isinstance(n, ast.Assign) and len(n.targets) == 1 and ex.norm(n.targets[0]) == "chosen_items" \
                        and isinstance(n.value, ast.Subscript) and ex.norm(n.value.value) == "chosen_items":
                    sl = n.value.slice
                    if isinstance(sl, ast.Tuple) and len(sl.elts) == 2 and isinstance(sl.elts[1], ast.Slice):
                        lo, hi = sl.elts[1].lower, sl.elts[1].upper
                        if hi is None and isinstance(lo, ast.Constant) and isinstance(lo.value, int):
                            hits.append(lo.value)
                        elif hi is None and lo is None:
                            hits.append(0)
            return str(hits[0]) if len(hits) == 1 else None
        return run

    ex.probe("mcpStepItemOffset", "Nat", "1", "mcp/env.py:_step  `chosen_items = chosen_items[:, 1:]` — id `x+1` ↔ index `x` "
             "(unfolded by `Mcp.coveredBy_iff`)", slice_lower("MCPEnv._step"))
    ex.probe("mcpRewardItemOffset", "Nat", "1", "mcp/env.py:_get_reward  `chosen_items = chosen_items[:, 1:]` (unfolded by "
             "`Mcp.coveredByR_iff`)", slice_lower("MCPEnv._get_reward"))

    # ---- MCP: membership rows of the chosen sets are zeroed (the remaining sets keep theirs) -------------
    def mcp_membership_mask():
        f = fn_of(MCP, "MCPEnv._step")
        if f is None:
            return None
        hits = []
        for n in ast.walk(f):
            if isinstance(n, ast.Assign) and len(n.targets) == 1 and ex.norm(n.targets[0]) == "remaining_membership" \
                    and isinstance(n.value, ast.BinOp) and isinstance(n.value.op, ast.Mult):
                l = ex.norm(n.value.left)
                if l == "remaining_sets.unsqueeze(-1)":
                    hits.append("true")
                elif l == "chosen.unsqueeze(-1)":
                    hits.append("false")
        # and `remaining_sets = ~chosen`
        neg = [n for n in ast.walk(f) if isinstance(n, ast.Assign) and len(n.targets) == 1
               and ex.norm(n.targets[0]) == "remaining_sets"]
        if len(neg) != 1 or len(hits) != 1:
            return None
        v = neg[0].value
        if isinstance(v, ast.UnaryOp) and isinstance(v.op, ast.Invert) and ex.norm(v.operand) == "chosen":
            return hits[0]
        if ex.norm(v) == "chosen":
            return "false" if hits[0] == "true" else "true"
        return None

    ex.probe("mcpKeepRemainingRows", "Bool", "true", "mcp/env.py:_step  `remaining_membership = (~chosen).unsqueeze(-1) * membership` "
             "(unfolded by `Mcp.inv2_of_run`)", mcp_membership_mask)

    # ---- DPP / MDPP: mask construction -------------------------------------------------------------------
    def dict_value_negated(rel, qual, key, operand):
        """is the dict entry `key: ~operand` (true) or `key: operand` (false)?"""
        def run():
            f = fn_of(rel, qual)
            if f is None:
                return None
            hits = []
            for n in ast.walk(f):
                if isinstance(n, ast.Dict):
                    for k, v in zip(n.keys, n.values):
                        if isinstance(k, ast.Constant) and k.value == key:
                            if isinstance(v, ast.UnaryOp) and isinstance(v.op, ast.Invert) and ex.norm(v.operand) == operand:
                                hits.append("true")
                            elif ex.norm(v) == operand:
                                hits.append("false")
            return hits[0] if len(hits) == 1 else None
        return run

    ex.probe("dppKeepoutNegated", "Bool", "true", "dpp/env.py:_reset  `\"keepout\": ~td[\"action_mask\"]` (unfolded by `Dpp.keepout_const`)",
             dict_value_negated(DPP, "DPPEnv._reset", "keepout", "td['action_mask']"))

    def mdpp_probe_negated():
        f = fn_of(MDPP, "MDPPEnv._reset")
        if f is None:
            return None
        hits = []
        for n in ast.walk(f):
            if isinstance(n, ast.Call) and ex.norm(n.func) == "torch.logical_and" and len(n.args) == 2 \
                    and ex.norm(n.args[0]) == "td_reset['action_mask']":
                a = n.args[1]
                if isinstance(a, ast.UnaryOp) and isinstance(a.op, ast.Invert) and ex.norm(a.operand) == "td_reset['probe']":
                    hits.append("true")
                elif ex.norm(a) == "td_reset['probe']":
                    hits.append("false")
        return hits[0] if len(hits) == 1 else None

    ex.probe("mdppResetProbeNegated", "Bool", "true", "mdpp/env.py:_reset  `logical_and(action_mask, ~probe)` (unfolded by "
             "`Dpp.allowed0_eq_spec`)", mdpp_probe_negated)

    def dpp_scatter_value():
        f = fn_of(DPP, "DPPEnv._step")
        if f is None:
            return None
        hits = []
        for n in ast.walk(f):
            if isinstance(n, ast.Call) and isinstance(n.func, ast.Attribute) and n.func.attr == "scatter" \
                    and ex.norm(n.func.value) == "td['action_mask']" and len(n.args) == 3 \
                    and isinstance(n.args[2], ast.Constant):
                v = n.args[2].value
                if v in (0, False):
                    hits.append("false")
                elif v in (1, True):
                    hits.append("true")
        return hits[0] if len(hits) == 1 else None

    ex.probe("dppScatterValue", "Bool", "false", "dpp/env.py:_step  `action_mask.scatter(-1, a, 0)` — the placed cell is CLEARED "
             "(unfolded by `Dpp.view.step_am`)", dpp_scatter_value)

    # ---- generator defaults that the "generated instances are solvable" chain depends on -------------------
    def int_default(rel, cls, arg):
        def run():
            tree = ex.parse(rel)
            fn = ex.find_function(tree, f"{cls}.__init__") if tree else None
            if fn is None:
                return None
            a = fn.args
            defaults = [None] * (len(a.args) - len(a.defaults)) + list(a.defaults)
            for p, d in list(zip(a.args, defaults)) + list(zip(a.kwonlyargs, a.kw_defaults)):
                if p.arg == arg and isinstance(d, ast.Constant) and isinstance(d.value, int) and not isinstance(d.value, bool):
                    return str(d.value)
            return None
        return run

    FG, MG = "rl4co/envs/graph/flp/generator.py", "rl4co/envs/graph/mcp/generator.py"
    DG, MDG = "rl4co/envs/eda/dpp/generator.py", "rl4co/envs/eda/mdpp/generator.py"
    for name, rel, cls, arg, dflt in [
        ("genFlpNumLoc", FG, "FLPGenerator", "num_loc", 100), ("genFlpToChoose", FG, "FLPGenerator", "to_choose", 10),
        ("genMcpNumSets", MG, "MCPGenerator", "num_sets", 100), ("genMcpNumItems", MG, "MCPGenerator", "num_items", 200),
        ("genMcpNSetsToChoose", MG, "MCPGenerator", "n_sets_to_choose", 10),
        ("genDppMaxDecaps", DG, "DPPGenerator", "max_decaps", 20), ("genDppNumKeepoutMax", DG, "DPPGenerator", "num_keepout_max", 50),
        ("genMdppMaxDecaps", MDG, "MDPPGenerator", "max_decaps", 20), ("genMdppNumKeepoutMax", MDG, "MDPPGenerator", "num_keepout_max", 50),
        ("genMdppNumProbesMax", MDG, "MDPPGenerator", "num_probes_max", 5),
    ]:
        ex.probe(name, "Nat", str(dflt), f"{rel.split('envs/')[1]}:{cls}.__init__ default `{arg}` (obligation "
                 f"`Rl4co.{'Flp' if 'Flp' in name else 'Mcp' if 'Mcp' in name else 'Dpp'}.gen_defaults_wf`)",
                 int_default(rel, cls, arg))

    # ---- the instance field `orig_distances`: `get_distance_matrix(locs)` = p-norm of broadcast differences ----
    def dist_norm_p():
        tree = ex.parse("rl4co/utils/ops.py")
        f = ex.find_function(tree, "get_distance_matrix") if tree else None
        if f is None:
            return None
        hits = []
        for n in ast.walk(f):
            if isinstance(n, ast.Call) and isinstance(n.func, ast.Attribute) and n.func.attr == "norm" \
                    and isinstance(n.func.value, ast.BinOp) and isinstance(n.func.value.op, ast.Sub) \
                    and ex.norm(n.func.value.left) == "locs[...,:,None,:]" and ex.norm(n.func.value.right) == "locs[...,None,:,:]":
                for k in n.keywords:
                    if k.arg == "p" and isinstance(k.value, ast.Constant) and isinstance(k.value.value, int):
                        hits.append(k.value.value)
        return str(hits[0]) if len(hits) == 1 else None

    ex.probe("flpDistNormP", "Nat", "2", "utils/ops.py:get_distance_matrix  `(locs[..., :, None, :] - locs[..., None, :, :]).norm(p=2, dim=-1)` — "
             "order of the norm (unfolded by `Flp.distOf_sq`)", dist_norm_p)
