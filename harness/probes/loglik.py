"""AST probes of the decoding / log-likelihood / beam-search family (C11, C13): the decision-critical tokens of
`rl4co/utils/decoding.py`, `rl4co/models/common/constructive/base.py`, `rl4co/utils/ops.py:calculate_entropy`
and `rl4co/models/rl/ppo/ppo.py`.  The Lean models `Rl4co/Decode/Strategy.lean`, `Rl4co/Decode/Beam.lean` take
each of them as a parameter; the lemmas in `Rl4co/Proofs/Loglik.lean` / `LoglikBeam.lean` and the property
theorems need the pinned values and stop compiling when a token changes.

Every probe matches one statement *shape* inside one named function and returns `None` (pattern-miss → the
committed default, never an alarm) when the shape is not found — a harmless rewrite (renamed temporary, moved
code) is a miss; a recognisable statement with a different operator / constant / index is a changed value."""
import ast


def register(ex):
    D = "rl4co/utils/decoding.py"
    B = "rl4co/models/common/constructive/base.py"
    O = "rl4co/utils/ops.py"
    P = "rl4co/models/rl/ppo/ppo.py"

    def fn(rel, qual):
        tree = ex.parse(rel)
        return ex.find_function(tree, qual) if tree else None

    def lean_bool(b):
        return "true" if b else "false"

    def lean_int(v):
        return str(int(v)) if int(v) >= 0 else f"({int(v)})"

    # ---- get_log_likelihood -----------------------------------------------------------------------------
    def gll_mask_assign():
        f = fn(D, "get_log_likelihood")
        if f is None:
            return None
        for n in ast.walk(f):
            if (isinstance(n, ast.Assign) and len(n.targets) == 1 and isinstance(n.targets[0], ast.Subscript)
                    and ex.norm(n.targets[0].value) == "logprobs" and isinstance(n.value, ast.Constant)):
                return n
        return None

    def gll_mask_inverted():
        n = gll_mask_assign()
        if n is None:
            return None
        sl = n.targets[0].slice
        if isinstance(sl, ast.UnaryOp) and isinstance(sl.op, ast.Invert) and ex.norm(sl.operand) == "mask":
            return "true"
        if ex.norm(sl) == "mask":
            return "false"
        return None

    def gll_mask_fill():
        n = gll_mask_assign()
        if n is None or not isinstance(n.value.value, (int, float)) or float(n.value.value) != int(n.value.value):
            return None
        return lean_int(n.value.value)

    def gll_sum_axis():
        f = fn(D, "get_log_likelihood")
        if f is None:
            return None
        hits = []
        for n in ast.walk(f):
            if (isinstance(n, ast.Return) and isinstance(n.value, ast.Call) and isinstance(n.value.func, ast.Attribute)
                    and n.value.func.attr == "sum" and ex.norm(n.value.func.value) == "logprobs"):
                c = n.value
                arg = c.args[0] if c.args else next((k.value for k in c.keywords if k.arg in ("dim", "axis")), None)
                if isinstance(arg, ast.Constant) and isinstance(arg.value, int) and arg.value >= 0:
                    hits.append(arg.value)
        return str(hits[0]) if len(hits) == 1 else None

    ex.probe("gllMaskInverted", "Bool", "true", "decoding.py:get_log_likelihood  `logprobs[~mask] = 0`: the subscript is `~mask`", gll_mask_inverted)
    ex.probe("gllMaskFill", "Int", "0", "decoding.py:get_log_likelihood  `logprobs[~mask] = 0`: the assigned constant", gll_mask_fill)
    ex.probe("gllSumAxis", "Nat", "1", "decoding.py:get_log_likelihood  `return logprobs.sum(1)`: the summed axis", gll_sum_axis)

    # ---- pre_decoder_hook: forced first move ----------------------------------------------------------------
    def forced_const(qual, which):
        """`logprobs = torch.zeros_like(<x>)` assignments of the hook: `which`=substring of the argument"""

        def run():
            f = fn(D, qual)
            if f is None:
                return None
            vals = []
            for n in ast.walk(f):
                if (isinstance(n, ast.Assign) and len(n.targets) == 1 and ex.norm(n.targets[0]) == "logprobs"
                        and isinstance(n.value, ast.Call) and isinstance(n.value.func, ast.Attribute) and n.value.args
                        and (ex.norm(n.value.args[0]) == which if which == "action" else which in ex.norm(n.value.args[0]))):
                    name = n.value.func.attr
                    if name == "zeros_like":
                        vals.append(0)
                    elif name == "ones_like":
                        vals.append(1)
            return lean_int(vals[0]) if len(vals) == 1 else None

        return run

    ex.probe("preForcedLogp", "Int", "0", "decoding.py:DecodingStrategy.pre_decoder_hook  `logprobs = torch.zeros_like(action, …)` (forced multi-start move, gathered form)",
             forced_const("DecodingStrategy.pre_decoder_hook", "action"))
    ex.probe("preForcedLogpAll", "Int", "0", "decoding.py:DecodingStrategy.pre_decoder_hook  `logprobs = torch.zeros_like(td['action_mask'])` (store_all_logp form)",
             forced_const("DecodingStrategy.pre_decoder_hook", "action_mask"))
    ex.probe("beamForcedLogp", "Int", "0", "decoding.py:BeamSearch.pre_decoder_hook  `logprobs = torch.zeros_like(td['action_mask'], …)`",
             forced_const("BeamSearch.pre_decoder_hook", "action_mask"))

    # ---- ConstructivePolicy.forward: loop ----------------------------------------------------------------------
    ex.probe("decodeBreakCmp", "Cmp", ".gt", "constructive/base.py:ConstructivePolicy.forward  `if step > max_steps: break`",
             ex.cmp_probe(B, "ConstructivePolicy.forward", "step", "max_steps"))

    def max_steps_default():
        f = fn(B, "ConstructivePolicy.forward")
        if f is None:
            return None
        args = f.args.args
        defaults = f.args.defaults
        off = len(args) - len(defaults)
        for k, a in enumerate(args):
            if a.arg == "max_steps" and k >= off:
                d = defaults[k - off]
                if isinstance(d, ast.Constant) and isinstance(d.value, int) and d.value >= 0:
                    return str(d.value)
        return None

    ex.probe("decodeMaxStepsDefault", "Nat", "1000000", "constructive/base.py:ConstructivePolicy.forward  default of `max_steps`", max_steps_default)

    def loop_all_done():
        f = fn(B, "ConstructivePolicy.forward")
        if f is None:
            return None
        hits = []
        for n in ast.walk(f):
            if isinstance(n, ast.While) and isinstance(n.test, ast.UnaryOp) and isinstance(n.test.op, ast.Not):
                t = n.test.operand
                if isinstance(t, ast.Call) and isinstance(t.func, ast.Attribute) and ex.norm(t.func.value) == "td['done']":
                    if t.func.attr == "all":
                        hits.append(True)
                    elif t.func.attr == "any":
                        hits.append(False)
        return lean_bool(hits[0]) if len(hits) == 1 else None

    ex.probe("decodeLoopAllDone", "Bool", "true", "constructive/base.py:ConstructivePolicy.forward  `while not td['done'].all()`", loop_all_done)

    def eval_action_offset():
        f = fn(B, "ConstructivePolicy.forward")
        if f is None:
            return None
        hits = []
        for n in ast.walk(f):
            if isinstance(n, ast.keyword) and n.arg == "action":
                for m in ast.walk(n.value):
                    if isinstance(m, ast.Subscript) and ex.norm(m.value) == "actions" and isinstance(m.slice, ast.Tuple) and m.slice.elts:
                        idx = m.slice.elts[-1]
                        if ex.norm(idx) == "step":
                            hits.append(0)
                        elif (isinstance(idx, ast.BinOp) and isinstance(idx.op, (ast.Add, ast.Sub)) and isinstance(idx.right, ast.Constant)
                              and isinstance(idx.right.value, int) and ex.norm(idx.left) == "step"):
                            hits.append(idx.right.value if isinstance(idx.op, ast.Add) else -idx.right.value)
        return lean_int(hits[0]) if len(hits) == 1 else None

    ex.probe("evalActionOffset", "Int", "0", "constructive/base.py:ConstructivePolicy.forward  `action=actions[..., step]`: offset added to `step`", eval_action_offset)

    # ---- best selection --------------------------------------------------------------------------------------------
    def reduction(qual, inner):
        """`<inner>(…).max(…)` vs `.min(…)` inside `qual`"""

        def run():
            f = fn(D, qual)
            if f is None:
                return None
            hits = []
            for n in ast.walk(f):
                if (isinstance(n, ast.Call) and isinstance(n.func, ast.Attribute) and n.func.attr in ("max", "min")
                        and isinstance(n.func.value, ast.Call) and inner in ex.norm(n.func.value.func)):
                    hits.append(n.func.attr == "max")
            return lean_bool(hits[0]) if len(hits) == 1 else None

        return run

    ex.probe("selectBestIsMax", "Bool", "true", "decoding.py:DecodingStrategy._select_best  `unbatchify(rewards, self.num_starts).max(dim=-1)`",
             reduction("DecodingStrategy._select_best", "unbatchify"))
    ex.probe("beamBestIsMax", "Bool", "true", "decoding.py:BeamSearch._select_best_beam  `torch.cat(rewards.unsqueeze(1).split(batch_size), 1).max(1)`",
             reduction("BeamSearch._select_best_beam", "cat"))

    def select_best_factor():
        f = fn(D, "DecodingStrategy._select_best")
        if f is None:
            return None
        hits = []
        for n in ast.walk(f):
            if isinstance(n, ast.Call) and ex.norm(n.func) in ("unbatchify", "unbatchify_and_gather") and n.args:
                a = n.args[-1]
                if ex.norm(a) == "self.num_starts":
                    hits.append(True)
                elif not isinstance(a, ast.Name):  # a renamed temporary is a harmless rewrite; another expression is not
                    hits.append(False)
                else:
                    return None
        return lean_bool(all(hits)) if hits else None

    ex.probe("selectBestFactorIsNumStarts", "Bool", "true", "decoding.py:DecodingStrategy._select_best  `unbatchify(…, self.num_starts)` / `unbatchify_and_gather(…, self.num_starts)`",
             select_best_factor)

    # ---- beam search ----------------------------------------------------------------------------------------------------
    def topk_call():
        f = fn(D, "BeamSearch._make_beam_step")
        if f is None:
            return None
        calls = [n for n in ast.walk(f) if isinstance(n, ast.Call) and ex.norm(n.func) == "torch.topk"]
        return calls[0] if len(calls) == 1 else None

    def topk_largest():
        c = topk_call()
        if c is None:
            return None
        for k in c.keywords:
            if k.arg == "largest":
                return lean_bool(bool(k.value.value)) if isinstance(k.value, ast.Constant) else None
        if len(c.args) >= 4:
            return lean_bool(bool(c.args[3].value)) if isinstance(c.args[3], ast.Constant) else None
        return "true"

    def topk_k():
        c = topk_call()
        if c is None or len(c.args) < 2:
            return None
        a = c.args[1]
        if ex.norm(a) == "self.beam_width":
            return "true"
        return None if isinstance(a, ast.Name) else "false"

    ex.probe("beamTopkLargest", "Bool", "true", "decoding.py:BeamSearch._make_beam_step  `torch.topk(log_beam_prob_hstacked, self.beam_width, dim=1)` keeps the largest", topk_largest)
    ex.probe("beamTopkKIsWidth", "Bool", "true", "decoding.py:BeamSearch._make_beam_step  `torch.topk(…, self.beam_width, …)`: k is the beam width", topk_k)

    def index_op(target, want):
        """operator of `<target> = topk_ind <op> num_nodes` (possibly wrapped in `(…).int()`); `want` ↦ true"""

        def run():
            f = fn(D, "BeamSearch._make_beam_step")
            if f is None:
                return None
            hits = []
            for n in ast.walk(f):
                if isinstance(n, ast.Assign) and len(n.targets) == 1 and ex.norm(n.targets[0]) == target:
                    for m in ast.walk(n.value):
                        if isinstance(m, ast.BinOp) and ex.norm(m.left) == "topk_ind" and ex.norm(m.right) == "num_nodes":
                            if isinstance(m.op, (ast.Mod, ast.FloorDiv)):
                                hits.append(isinstance(m.op, want))
            return lean_bool(hits[0]) if len(hits) == 1 else None

        return run

    ex.probe("beamSelectedIsMod", "Bool", "true", "decoding.py:BeamSearch._make_beam_step  `selected = topk_ind % num_nodes`", index_op("selected", ast.Mod))
    ex.probe("beamParentIsFloorDiv", "Bool", "true", "decoding.py:BeamSearch._make_beam_step  `beam_parent = (topk_ind // num_nodes).int()`", index_op("beam_parent", ast.FloorDiv))

    def seq_plus_parent_times_b(qual, parent):
        """`batch_beam_idx = batch_beam_sequence + <parent> * batch_size` (operands of + and * in either order)"""

        def run():
            f = fn(D, qual)
            if f is None:
                return None
            hits = []
            for n in ast.walk(f):
                if isinstance(n, ast.Assign) and len(n.targets) == 1 and ex.norm(n.targets[0]) == "batch_beam_idx" and isinstance(n.value, ast.BinOp):
                    v = n.value
                    if not isinstance(v.op, ast.Add):
                        hits.append(False)
                        continue
                    l, r = v.left, v.right
                    if ex.norm(r) == "batch_beam_sequence":
                        l, r = r, l
                    if ex.norm(l) != "batch_beam_sequence":
                        return None
                    if isinstance(r, ast.BinOp) and isinstance(r.op, ast.Mult) and {ex.norm(r.left), ex.norm(r.right)} == {parent, "batch_size"}:
                        hits.append(True)
                    elif ex.norm(r) == parent or isinstance(r, ast.BinOp):
                        hits.append(False)
                    else:
                        return None
            return lean_bool(hits[0]) if len(hits) == 1 else None

        return run

    ex.probe("beamBbiSeqPlusParentTimesB", "Bool", "true", "decoding.py:BeamSearch._make_beam_step  `batch_beam_idx = batch_beam_sequence + beam_parent * batch_size`",
             seq_plus_parent_times_b("BeamSearch._make_beam_step", "beam_parent"))
    ex.probe("beamBacktrackSeqPlusParentTimesB", "Bool", "true", "decoding.py:BeamSearch._backtrack  `batch_beam_idx = batch_beam_sequence + cur_parent * batch_size`",
             seq_plus_parent_times_b("BeamSearch._backtrack", "cur_parent"))

    # ---- calculate_entropy ----------------------------------------------------------------------------------------------
    def entropy_negated():
        f = fn(O, "calculate_entropy")
        if f is None:
            return None
        for n in ast.walk(f):
            if isinstance(n, ast.Assign) and len(n.targets) == 1 and ex.norm(n.targets[0]) == "entropy":
                v = n.value
                if isinstance(v, ast.UnaryOp) and isinstance(v.op, ast.USub) and "logprobs.exp()*logprobs" in ex.norm(v.operand):
                    return "true"
                if "logprobs.exp()*logprobs" in ex.norm(v) and not any(
                        isinstance(m, ast.UnaryOp) and isinstance(m.op, ast.USub) and not isinstance(m.operand, ast.Constant) for m in ast.walk(v)):
                    return "false"
                return None
        return None

    ex.probe("entropyNegated", "Bool", "true", "ops.py:calculate_entropy  `entropy = -(logprobs.exp() * logprobs).sum(dim=-1)`: the leading minus", entropy_negated)

    # ---- PPO ratio ----------------------------------------------------------------------------------------------------------
    def ppo_new_minus_old():
        f = fn(P, "PPO.shared_step")
        if f is None:
            return None
        hits = []
        for n in ast.walk(f):
            if isinstance(n, ast.Call) and ex.norm(n.func) == "torch.exp" and n.args and isinstance(n.args[0], ast.BinOp):
                b = n.args[0]
                l, r = ex.norm(b.left), ex.norm(b.right)
                new_l, old_r = "ll.sum(" in l, "sub_td['logprobs']" in r
                new_r, old_l = "ll.sum(" in r, "sub_td['logprobs']" in l
                if isinstance(b.op, ast.Sub) and new_l and old_r:
                    hits.append(True)
                elif (new_l and old_r) or (new_r and old_l):
                    hits.append(False)
        return lean_bool(hits[0]) if len(hits) == 1 else None

    ex.probe("ppoRatioNewMinusOld", "Bool", "true", "ppo.py:PPO.shared_step  `ratio = torch.exp(ll.sum(dim=-1) - sub_td['logprobs'])`: new minus old", ppo_new_minus_old)

    # ---- stepwise PPO policy (L2DPolicy4PPO.act / .evaluate) and StepwisePPO.update -------------------------------------
    L2 = "rl4co/models/zoo/l2d/policy.py"
    SP = "rl4co/models/rl/ppo/stepwise_ppo.py"
    PL_NAMES = ("logits", "mask", "temperature", "top_p", "top_k", "tanh_clipping", "mask_logits")

    def pl_args(qual):
        """the option arguments of the (single) `process_logits(logits, mask, …)` call of `qual`, as sorted `name=expr` strings"""

        def run():
            f = fn(L2, qual)
            if f is None:
                return None
            calls = [n for n in ast.walk(f) if isinstance(n, ast.Call) and ex.norm(n.func).split(".")[-1] == "process_logits"]
            if len(calls) != 1:
                return None
            c = calls[0]
            if any(isinstance(a, ast.Starred) for a in c.args) or any(k.arg is None for k in c.keywords) or len(c.args) > len(PL_NAMES):
                return None
            items = [f"{PL_NAMES[i]}={ex.norm(a)}" for i, a in enumerate(c.args)] + [f"{k.arg}={ex.norm(k.value)}" for k in c.keywords]
            items = sorted(it for it in items if not it.startswith(("logits=", "mask=")))
            return "[" + ", ".join('"' + it.replace('"', "'") + '"' for it in items) + "]"

        return run

    dflt = '["tanh_clipping=self.tanh_clipping"]'
    ex.probe("stepwiseActOpts", "List String", dflt, "l2d/policy.py:L2DPolicy4PPO.act  option arguments of `process_logits(logits, mask, …)`", pl_args("L2DPolicy4PPO.act"))
    ex.probe("stepwiseEvalOpts", "List String", dflt, "l2d/policy.py:L2DPolicy4PPO.evaluate  option arguments of `process_logits(logits, mask, …)`", pl_args("L2DPolicy4PPO.evaluate"))

    def stepwise_ratio():
        tree = ex.parse(SP)
        f = ex.find_function(tree, "StepwisePPO.update") if tree else None
        if f is None:
            return None
        hits = []
        for n in ast.walk(f):
            if isinstance(n, ast.Call) and ex.norm(n.func) == "torch.exp" and n.args and isinstance(n.args[0], ast.BinOp):
                b = n.args[0]
                l, r = ex.norm(b.left), ex.norm(b.right)
                if isinstance(b.op, ast.Sub) and l == "logprobs" and r.startswith("previous_logp"):
                    hits.append(True)
                elif {l.split(".")[0], r.split(".")[0]} == {"logprobs", "previous_logp"}:
                    hits.append(False)
        return lean_bool(hits[0]) if len(hits) == 1 else None

    ex.probe("stepwiseRatioNewMinusOld", "Bool", "true", "stepwise_ppo.py:StepwisePPO.update  `ratios = torch.exp(logprobs - previous_logp)`", stepwise_ratio)

    # ---- which start rule the hooks apply (no custom select_start_nodes_fn) ------------------------------------------------
    def start_rule(qual):
        """`env.select_start_nodes(…)` (the environment's own, possibly overridden rule) vs the generic helper
        `select_start_nodes(…)` of utils/ops.py"""

        def run():
            f = fn(D, qual)
            if f is None:
                return None
            env_rule = generic = False
            for n in ast.walk(f):
                if isinstance(n, ast.Attribute) and n.attr == "select_start_nodes" and ex.norm(n.value) == "env":
                    env_rule = True
                elif isinstance(n, ast.Name) and n.id == "select_start_nodes":
                    generic = True
            if env_rule and not generic:
                return "true"
            if generic and not env_rule:
                return "false"
            return None

        return run

    ex.probe("preStartFromEnvRule", "Bool", "true", "decoding.py:DecodingStrategy.pre_decoder_hook  `action = env.select_start_nodes(td, num_starts=self.num_starts)` (the environment's rule, not the generic helper)",
             start_rule("DecodingStrategy.pre_decoder_hook"))
    ex.probe("beamStartFromEnvRule", "Bool", "true", "decoding.py:BeamSearch.pre_decoder_hook  `action = env.select_start_nodes(td, num_starts=self.beam_width)` (the environment's rule, not the generic helper)",
             start_rule("BeamSearch.pre_decoder_hook"))

    # ---- AttentionModelPolicy.__init__: decoding options are passed through to the decoding machinery unchanged --------------------
    AMP = "rl4co/models/zoo/am/policy.py"

    def am_passthrough():
        f = fn(AMP, "AttentionModelPolicy.__init__")
        if f is None:
            return None
        names = ("mask_logits", "temperature", "tanh_clipping")
        # (i) none of them is re-assigned in the constructor body
        for n in ast.walk(f):
            targets = []
            if isinstance(n, ast.Assign):
                targets = n.targets
            elif isinstance(n, (ast.AugAssign, ast.AnnAssign)):
                targets = [n.target]
            for t in targets:
                for m in ast.walk(t):
                    if isinstance(m, ast.Name) and m.id in names:
                        return "false"
        # (ii) each is handed on as itself in the (single) call that forwards it
        seen = {}
        for n in ast.walk(f):
            if isinstance(n, ast.Call):
                for k in n.keywords:
                    if k.arg in names:
                        seen.setdefault(k.arg, []).append(ex.norm(k.value) == k.arg)
        if set(seen) != set(names):
            return None
        return lean_bool(all(all(v) for v in seen.values()))

    ex.probe("amCtorDecodingArgsPassedThrough", "Bool", "true",
             "am/policy.py:AttentionModelPolicy.__init__  `mask_logits=mask_logits, temperature=temperature, tanh_clipping=tanh_clipping` handed on unchanged (no re-assignment, e.g. no `and mask_inner`)",
             am_passthrough)
