"""AST probes of the generator / persistence family (C18, C19): the `CAPACITIES`, `MAX_LENGTHS` and
`VARIANT_GENERATION_PRESETS` tables, the generator defaults and the constants of the post-processing
formulas, regenerated into `Rl4co/Generated/Params.lean` on every run.  The obligations over them
(`Rl4co/Props/C18/Tables.lean`: every capacity ≥ default maximal demand, every named preset enables
exactly the features in its name, max_time leaves room for 2·dist+1, …) are closed by `decide`, so an
edited table or default breaks a proof at `lake build`.

Numbers are emitted as exact fractions `(num, den)` of the decimal literal in the source (0.15 → 3/20)."""
from fractions import Fraction

CV = "rl4co/envs/routing/cvrp/generator.py"
TW = "rl4co/envs/routing/cvrptw/generator.py"
OP = "rl4co/envs/routing/op/generator.py"
PC = "rl4co/envs/routing/pctsp/generator.py"
MT = "rl4co/envs/routing/mtvrp/generator.py"
GD = "rl4co/data/generate_data.py"
FJ = "rl4co/envs/scheduling/fjsp/generator.py"
JS = "rl4co/envs/scheduling/jssp/generator.py"
AT = "rl4co/envs/routing/atsp/generator.py"
MC = "rl4co/envs/graph/mcp/generator.py"


def register(ex):
    ast = ex.ast

    def frac(node):
        """numeric literal (possibly negated) → '(num, den)'"""
        if isinstance(node, ast.UnaryOp) and isinstance(node.op, ast.USub):
            inner = frac(node.operand)
            if inner is None:
                return None
            n, d = inner
            return (-n, d)
        if isinstance(node, ast.Constant) and isinstance(node.value, (int, float)) and not isinstance(node.value, bool):
            fr = Fraction(str(node.value))
            return (fr.numerator, fr.denominator)
        return None

    def fstr(nd):
        return f"({nd[0]}, {nd[1]})"

    def find_dict_assign(scope, name):
        for n in ast.walk(scope):
            if isinstance(n, ast.Assign) and len(n.targets) == 1 and isinstance(n.targets[0], ast.Name) \
                    and n.targets[0].id == name and isinstance(n.value, ast.Dict):
                return n.value
        return None

    def num_table(rel, name, func=None):
        """{int: number} dict literal assigned to `name` (module level or inside `func`)"""
        def run():
            tree = ex.parse(rel)
            if tree is None:
                return None
            scope = ex.find_function(tree, func) if func else tree
            if scope is None:
                return None
            if func is None:  # module level only
                cands = [n for n in tree.body if isinstance(n, ast.Assign)]
                d = None
                for n in cands:
                    if len(n.targets) == 1 and isinstance(n.targets[0], ast.Name) and n.targets[0].id == name \
                            and isinstance(n.value, ast.Dict):
                        d = n.value
            else:
                d = find_dict_assign(scope, name)
            if d is None:
                return None
            items = []
            for k, v in zip(d.keys, d.values):
                if not (isinstance(k, ast.Constant) and isinstance(k.value, int)):
                    return None
                fv = frac(v)
                if fv is None:
                    return None
                items.append(f"({k.value}, {fstr(fv)})")
            return "[" + ", ".join(items) + "]"
        return run

    def presets():
        tree = ex.parse(MT)
        if tree is None:
            return None
        d = None
        for n in tree.body:
            if isinstance(n, ast.Assign) and len(n.targets) == 1 and isinstance(n.targets[0], ast.Name) \
                    and n.targets[0].id == "VARIANT_GENERATION_PRESETS" and isinstance(n.value, ast.Dict):
                d = n.value
        if d is None:
            return None
        rows = []
        for k, v in zip(d.keys, d.values):
            if not (isinstance(k, ast.Constant) and isinstance(k.value, str) and isinstance(v, ast.Dict)):
                return None
            feats = []
            for fk, fv in zip(v.keys, v.values):
                f = frac(fv)
                if not (isinstance(fk, ast.Constant) and isinstance(fk.value, str)) or f is None:
                    return None
                feats.append(f'("{fk.value}", {fstr(f)})')
            rows.append(f'("{k.value}", [' + ", ".join(feats) + "])")
        return "[" + ",\n    ".join(rows) + "]"

    def default_of(rel, cls, arg):
        """default value of keyword `arg` of `cls.__init__` as a fraction"""
        def run():
            tree = ex.parse(rel)
            fn = ex.find_function(tree, f"{cls}.__init__") if tree else None
            if fn is None:
                return None
            a = fn.args
            pos = a.args
            defaults = [None] * (len(pos) - len(a.defaults)) + list(a.defaults)
            for p, d in zip(pos, defaults):
                if p.arg == arg and d is not None:
                    f = frac(d)
                    return fstr(f) if f is not None else None
            for p, d in zip(a.kwonlyargs, a.kw_defaults):
                if p.arg == arg and d is not None:
                    f = frac(d)
                    return fstr(f) if f is not None else None
            return None
        return run

    def tw_consts():
        """`a, b, c = 0.15, 0.18, 0.2` in MTVRPGenerator.generate_time_windows"""
        tree = ex.parse(MT)
        fn = ex.find_function(tree, "MTVRPGenerator.generate_time_windows") if tree else None
        if fn is None:
            return None
        for n in ast.walk(fn):
            if isinstance(n, ast.Assign) and len(n.targets) == 1 and isinstance(n.targets[0], ast.Tuple) \
                    and [ex.norm(t) for t in n.targets[0].elts] == ["a", "b", "c"] and isinstance(n.value, ast.Tuple):
                fs = [frac(v) for v in n.value.elts]
                if len(fs) == 3 and all(f is not None for f in fs):
                    return "[" + ", ".join(fstr(f) for f in fs) + "]"
        return None

    def demand_sampler_shift():
        """the two offsets of `get_sampler('demand', …, min_demand - 1, max_demand - 1)` in CVRPGenerator.__init__
        and the `+ 1` of `(demand.int() + 1)` in `_generate` → '(lo_shift, hi_shift, add)'"""
        tree = ex.parse(CV)
        init = ex.find_function(tree, "CVRPGenerator.__init__") if tree else None
        gen = ex.find_function(tree, "CVRPGenerator._generate") if tree else None
        if init is None or gen is None:
            return None
        shifts = None
        for n in ast.walk(init):
            if isinstance(n, ast.Call) and ex.norm(n.func) == "get_sampler" and n.args \
                    and isinstance(n.args[0], ast.Constant) and n.args[0].value == "demand" and len(n.args) >= 4:
                lo, hi = n.args[2], n.args[3]
                def sh(e, base):
                    if isinstance(e, ast.BinOp) and ex.norm(e.left) == base and isinstance(e.right, ast.Constant):
                        if isinstance(e.op, ast.Sub):
                            return -int(e.right.value)
                        if isinstance(e.op, ast.Add):
                            return int(e.right.value)
                    if ex.norm(e) == base:
                        return 0
                    return None
                a, b = sh(lo, "min_demand"), sh(hi, "max_demand")
                if a is not None and b is not None:
                    shifts = (a, b)
        add = None
        for n in ast.walk(gen):
            if isinstance(n, ast.BinOp) and isinstance(n.op, ast.Add) and ex.norm(n.left) == "demand.int()" \
                    and isinstance(n.right, ast.Constant):
                add = int(n.right.value)
        if shifts is None or add is None:
            return None
        return f"({shifts[0]}, {shifts[1]}, {add})"

    def randint_exclusive(rel, func, low_txt, high_txt):
        """Is the call `torch.randint(low_txt, high_txt, …)` present inside func (high given as text)? → Bool"""
        def run():
            tree = ex.parse(rel)
            fn = ex.find_function(tree, func) if tree else None
            if fn is None:
                return None
            for n in ast.walk(fn):
                if isinstance(n, ast.Call) and ex.norm(n.func) == "torch.randint":
                    args = [ex.norm(a) for a in n.args] + [ex.norm(k.value) for k in n.keywords if k.arg in ("low", "high")]
                    if len(args) >= 2 and args[0] == low_txt.replace(" ", "") and args[1] == high_txt.replace(" ", ""):
                        return "true"
            return None
        return run

    T_NUM = "List (Nat × (Int × Nat))"
    F = "Int × Nat"
    p = ex.probe
    p("genCvrpCapacities", T_NUM,
      "[(10, (20, 1)), (15, (25, 1)), (20, (30, 1)), (30, (33, 1)), (40, (37, 1)), (50, (40, 1)), (60, (43, 1)), "
      "(75, (45, 1)), (100, (50, 1)), (125, (55, 1)), (150, (60, 1)), (200, (70, 1)), (500, (100, 1)), (1000, (150, 1))]",
      "cvrp/generator.py  module-level `CAPACITIES` (num_loc → vehicle capacity)", num_table(CV, "CAPACITIES"))
    p("genDataVrpCapacities", T_NUM,
      "[(10, (20, 1)), (15, (25, 1)), (20, (30, 1)), (30, (33, 1)), (40, (37, 1)), (50, (40, 1)), (60, (43, 1)), "
      "(75, (45, 1)), (100, (50, 1)), (125, (55, 1)), (150, (60, 1)), (200, (70, 1)), (500, (100, 1)), (1000, (150, 1))]",
      "data/generate_data.py:generate_vrp_data  local `CAPACITIES`", num_table(GD, "CAPACITIES", "generate_vrp_data"))
    ML = "[(20, (2, 1)), (50, (3, 1)), (100, (4, 1))]"
    p("genOpMaxLengths", T_NUM, ML, "op/generator.py  module-level `MAX_LENGTHS`", num_table(OP, "MAX_LENGTHS"))
    p("genPctspMaxLengths", T_NUM, ML, "pctsp/generator.py  module-level `MAX_LENGTHS`", num_table(PC, "MAX_LENGTHS"))
    p("genDataOpMaxLengths", T_NUM, ML, "data/generate_data.py:generate_op_data  local `MAX_LENGTHS`",
      num_table(GD, "MAX_LENGTHS", "generate_op_data"))
    p("genDataPctspMaxLengths", T_NUM, ML, "data/generate_data.py:generate_pctsp_data  local `MAX_LENGTHS`",
      num_table(GD, "MAX_LENGTHS", "generate_pctsp_data"))
    p("genMtvrpPresets", "List (String × List (String × (Int × Nat)))",
      """[("all", [("O", (1, 2)), ("TW", (1, 2)), ("L", (1, 2)), ("B", (1, 2))]),
    ("single_feat", [("O", (1, 2)), ("TW", (1, 2)), ("L", (1, 2)), ("B", (1, 2))]),
    ("single_feat_otw", [("O", (1, 2)), ("TW", (1, 2)), ("L", (1, 2)), ("B", (1, 2)), ("OTW", (1, 2))]),
    ("cvrp", [("O", (0, 1)), ("TW", (0, 1)), ("L", (0, 1)), ("B", (0, 1))]),
    ("ovrp", [("O", (1, 1)), ("TW", (0, 1)), ("L", (0, 1)), ("B", (0, 1))]),
    ("vrpb", [("O", (0, 1)), ("TW", (0, 1)), ("L", (0, 1)), ("B", (1, 1))]),
    ("vrpl", [("O", (0, 1)), ("TW", (0, 1)), ("L", (1, 1)), ("B", (0, 1))]),
    ("vrptw", [("O", (0, 1)), ("TW", (1, 1)), ("L", (0, 1)), ("B", (0, 1))]),
    ("ovrptw", [("O", (1, 1)), ("TW", (1, 1)), ("L", (0, 1)), ("B", (0, 1))]),
    ("ovrpb", [("O", (1, 1)), ("TW", (0, 1)), ("L", (0, 1)), ("B", (1, 1))]),
    ("ovrpl", [("O", (1, 1)), ("TW", (0, 1)), ("L", (1, 1)), ("B", (0, 1))]),
    ("vrpbl", [("O", (0, 1)), ("TW", (0, 1)), ("L", (1, 1)), ("B", (1, 1))]),
    ("vrpbtw", [("O", (0, 1)), ("TW", (1, 1)), ("L", (0, 1)), ("B", (1, 1))]),
    ("vrpltw", [("O", (0, 1)), ("TW", (1, 1)), ("L", (1, 1)), ("B", (0, 1))]),
    ("ovrpbl", [("O", (1, 1)), ("TW", (0, 1)), ("L", (1, 1)), ("B", (1, 1))]),
    ("ovrpbtw", [("O", (1, 1)), ("TW", (1, 1)), ("L", (0, 1)), ("B", (1, 1))]),
    ("ovrpltw", [("O", (1, 1)), ("TW", (1, 1)), ("L", (1, 1)), ("B", (0, 1))]),
    ("vrpbltw", [("O", (0, 1)), ("TW", (1, 1)), ("L", (1, 1)), ("B", (1, 1))]),
    ("ovrpbltw", [("O", (1, 1)), ("TW", (1, 1)), ("L", (1, 1)), ("B", (1, 1))])]""",
      "mtvrp/generator.py  module-level `VARIANT_GENERATION_PRESETS` (preset → feature → keep-probability)", presets)
    # generator defaults
    p("genCvrpMinDemand", F, "(1, 1)", "cvrp/generator.py:CVRPGenerator.__init__ default `min_demand`",
      default_of(CV, "CVRPGenerator", "min_demand"))
    p("genCvrpMaxDemand", F, "(10, 1)", "cvrp/generator.py:CVRPGenerator.__init__ default `max_demand`",
      default_of(CV, "CVRPGenerator", "max_demand"))
    p("genCvrpDemandShape", "Int × Int × Int", "(-1, -1, 1)",
      "cvrp/generator.py  `get_sampler('demand', …, min_demand - 1, max_demand - 1)` and `demand.int() + 1`: (lo shift, hi shift, add)",
      demand_sampler_shift)
    p("genCvrptwMaxLoc", F, "(150, 1)", "cvrptw/generator.py:CVRPTWGenerator.__init__ default `max_loc`",
      default_of(TW, "CVRPTWGenerator", "max_loc"))
    p("genCvrptwMinLoc", F, "(0, 1)", "cvrptw/generator.py:CVRPTWGenerator.__init__ default `min_loc`",
      default_of(TW, "CVRPTWGenerator", "min_loc"))
    p("genCvrptwMaxTime", F, "(480, 1)", "cvrptw/generator.py:CVRPTWGenerator.__init__ default `max_time`",
      default_of(TW, "CVRPTWGenerator", "max_time"))
    p("genCvrptwMaxDemand", F, "(10, 1)", "cvrptw/generator.py:CVRPTWGenerator.__init__ default `max_demand`",
      default_of(TW, "CVRPTWGenerator", "max_demand"))
    for arg, dflt in (("min_loc", "(0, 1)"), ("max_loc", "(1, 1)"), ("min_demand", "(1, 1)"), ("max_demand", "(10, 1)"),
                      ("min_backhaul", "(1, 1)"), ("max_backhaul", "(10, 1)"), ("max_time", "(23, 5)"),
                      ("distance_limit", "(3, 1)"), ("speed", "(1, 1)"), ("backhaul_ratio", "(1, 5)")):
        nm = "genMtvrp" + "".join(w.capitalize() for w in arg.split("_"))
        p(nm, F, dflt, f"mtvrp/generator.py:MTVRPGenerator.__init__ default `{arg}`", default_of(MT, "MTVRPGenerator", arg))
    p("genMtvrpTwConsts", "List (Int × Nat)", "[(3, 20), (9, 50), (1, 5)]",
      "mtvrp/generator.py:generate_time_windows  `a, b, c = 0.15, 0.18, 0.2`", tw_consts)
    for arg, dflt in (("min_processing_time", "(1, 1)"), ("max_processing_time", "(20, 1)"), ("min_eligible_ma_per_op", "(1, 1)"),
                      ("min_ops_per_job", "(4, 1)"), ("max_ops_per_job", "(6, 1)")):
        nm = "genFjsp" + "".join(w.capitalize() for w in arg.split("_"))
        p(nm, F, dflt, f"fjsp/generator.py:FJSPGenerator.__init__ default `{arg}`", default_of(FJ, "FJSPGenerator", arg))
    for arg, dflt in (("min_processing_time", "(1, 1)"), ("max_processing_time", "(99, 1)")):
        nm = "genJssp" + "".join(w.capitalize() for w in arg.split("_"))
        p(nm, F, dflt, f"jssp/generator.py:JSSPGenerator.__init__ default `{arg}`", default_of(JS, "JSSPGenerator", arg))
    p("genAtspMinDist", F, "(0, 1)", "atsp/generator.py:ATSPGenerator.__init__ default `min_dist`",
      default_of(AT, "ATSPGenerator", "min_dist"))
    p("genAtspMaxDist", F, "(1, 1)", "atsp/generator.py:ATSPGenerator.__init__ default `max_dist`",
      default_of(AT, "ATSPGenerator", "max_dist"))
    for arg, dflt in (("min_size", "(5, 1)"), ("max_size", "(15, 1)"), ("min_weight", "(1, 1)"), ("max_weight", "(10, 1)")):
        nm = "genMcp" + "".join(w.capitalize() for w in arg.split("_"))
        p(nm, F, dflt, f"mcp/generator.py:MCPGenerator.__init__ default `{arg}`", default_of(MC, "MCPGenerator", arg))

    # ---- decision-critical tokens of the post-processing formulas and of the persistence protocol ------------------------
    BASE = "rl4co/envs/common/base.py"
    UT = "rl4co/envs/common/utils.py"
    CVE = "rl4co/envs/routing/cvrp/env.py"

    def has_stmt(rel, func, pred, pred_alt=None):
        """'true' iff some node of `func` satisfies pred; 'false' only if a *recognised different* form (pred_alt) is present;
        otherwise None = pattern-miss (a harmless rewrite is never an alarm: the correspondence then carries the tie)"""
        def run():
            tree = ex.parse(rel)
            fn = ex.find_function(tree, func) if tree else None
            if fn is None:
                return None
            nodes = list(ast.walk(fn))
            if any(pred(n) for n in nodes):
                return "true"
            if pred_alt is not None and any(pred_alt(n) for n in nodes):
                return "false"
            return None
        return run

    def assign_of(target_txt, value_txt):
        T_, V_ = target_txt.replace(" ", ""), value_txt.replace(" ", "")
        return lambda n: isinstance(n, ast.Assign) and len(n.targets) == 1 and ex.norm(n.targets[0]) == T_ and ex.norm(n.value) == V_

    def call_stmt(txt):
        T_ = txt.replace(" ", "")
        return lambda n: isinstance(n, ast.Expr) and ex.norm(n.value) == T_

    def cvrptw_repair():
        """the two integer offsets of the window repair: `min_tmp[mask] - 1` and `max_tmp[mask] + 1`"""
        tree = ex.parse(TW)
        fn = ex.find_function(tree, "CVRPTWGenerator._generate") if tree else None
        if fn is None:
            return None
        lo = hi = None
        for n in ast.walk(fn):
            if isinstance(n, ast.BinOp) and isinstance(n.right, ast.Constant) and isinstance(n.right.value, int):
                sign = 1 if isinstance(n.op, ast.Add) else -1 if isinstance(n.op, ast.Sub) else None
                if sign is None:
                    continue
                if ex.norm(n.left) == "min_tmp[mask]":
                    lo = sign * n.right.value
                elif ex.norm(n.left) == "max_tmp[mask]":
                    hi = sign * n.right.value
        return f"({lo}, {hi})" if lo is not None and hi is not None else None

    def fjsp_spread():
        """`proc_time_means * (1 - 0.2)` and `proc_time_means * (1 + 0.2)`: the common spread as a fraction"""
        tree = ex.parse(FJ)
        fn = ex.find_function(tree, "FJSPGenerator._simulate_processing_times") if tree else None
        if fn is None:
            return None
        vals = {}
        for n in ast.walk(fn):
            if isinstance(n, ast.BinOp) and isinstance(n.op, ast.Mult) and ex.norm(n.left) == "proc_time_means" and isinstance(n.right, ast.BinOp) \
                    and isinstance(n.right.left, ast.Constant) and n.right.left.value == 1 and isinstance(n.right.right, ast.Constant):
                kind = "sub" if isinstance(n.right.op, ast.Sub) else "add" if isinstance(n.right.op, ast.Add) else None
                if kind:
                    vals[kind] = frac(n.right.right)
        if set(vals) == {"sub", "add"} and vals["sub"] == vals["add"] and vals["sub"] is not None:
            return fstr(vals["sub"])
        return None

    p("genCvrptwRepair", "Int × Int", "(-1, 1)",
      "cvrptw/generator.py:_generate step 7  `min_tmp[mask] - 1` / `max_tmp[mask] + 1`", cvrptw_repair)
    p("genFjspSpread", F, "(1, 5)", "fjsp/generator.py:_simulate_processing_times  `proc_time_means * (1 ∓ 0.2)`", fjsp_spread)
    p("genCenterIsMid", "Bool", "true", "common/utils.py:get_sampler  'center' → `Uniform(low=(high + low) / 2, high=(high + low) / 2)`",
      has_stmt(UT, "get_sampler", lambda n: isinstance(n, ast.Return) and n.value is not None
               and ex.norm(n.value) == "Uniform(low=(high+low)/2,high=(high+low)/2)",
               lambda n: isinstance(n, ast.Return) and n.value is not None and ex.norm(n.value) == "Uniform(low=(high-low)/2,high=(high-low)/2)"))
    p("genMcpCutoffSampled", "Bool", "true", "mcp/generator.py:_generate  `cutoffs_masks = torch.arange(max_size)…` (the sampled maximum)",
      has_stmt(MC, "MCPGenerator._generate", lambda n: isinstance(n, ast.Assign) and len(n.targets) == 1 and ex.norm(n.targets[0]) == "cutoffs_masks"
               and ex.norm(n.value).startswith("torch.arange(max_size).view(1,1,-1)<"),
               lambda n: isinstance(n, ast.Assign) and len(n.targets) == 1 and ex.norm(n.targets[0]) == "cutoffs_masks"
               and ex.norm(n.value).startswith("torch.arange(self.max_size).view(1,1,-1)<")))
    p("genLoadDataPerRow", "Bool", "true", "cvrp/env.py:load_data  `td_load['demand'] / td_load['capacity'][:, None]` (each row's own capacity)",
      has_stmt(CVE, "CVRPEnv.load_data", lambda n: isinstance(n, ast.BinOp) and isinstance(n.op, ast.Div)
               and ex.norm(n.left) == "td_load['demand']" and ex.norm(n.right) == "td_load['capacity'][:,None]",
               lambda n: isinstance(n, ast.BinOp) and isinstance(n.op, ast.Div) and ex.norm(n.left) == "td_load['demand']"
               and ex.norm(n.right) in ("td_load['capacity'][0]", "td_load['capacity'][0,None]", "td_load['capacity'][:1]")))
    p("genAtspLoopFull", "Bool", "true", "atsp/generator.py:_generate  `for i in range(self.num_loc)`",
      has_stmt(AT, "ATSPGenerator._generate", lambda n: isinstance(n, ast.For) and ex.norm(n.iter) == "range(self.num_loc)",
               lambda n: isinstance(n, ast.For) and ex.norm(n.iter).startswith("range(self.num_loc") and ex.norm(n.iter) != "range(self.num_loc)"))
    p("genDataAtspLoopFull", "Bool", "true", "data/generate_data.py:generate_atsp_data  `for i in range(atsp_size)`",
      has_stmt(GD, "generate_atsp_data", lambda n: isinstance(n, ast.For) and ex.norm(n.iter) == "range(atsp_size)",
               lambda n: isinstance(n, ast.For) and ex.norm(n.iter).startswith("range(atsp_size") and ex.norm(n.iter) != "range(atsp_size)"))
    p("genGetstateCopiesDict", "Bool", "true", "common/base.py:__getstate__  `state = self.__dict__.copy()` (every attribute is state)",
      has_stmt(BASE, "RL4COEnvBase.__getstate__", assign_of("state", "self.__dict__.copy()")))
    p("genGetstateRngToState", "Bool", "true", "common/base.py:__getstate__  `state['rng'] = state['rng'].get_state()`",
      has_stmt(BASE, "RL4COEnvBase.__getstate__", assign_of("state['rng']", "state['rng'].get_state()")))
    p("genSetstateUpdatesDict", "Bool", "true", "common/base.py:__setstate__  `self.__dict__.update(state)`",
      has_stmt(BASE, "RL4COEnvBase.__setstate__", call_stmt("self.__dict__.update(state)")))
    p("genSetstateRestoresRng", "Bool", "true", "common/base.py:__setstate__  `self.rng.set_state(state['rng'])`",
      has_stmt(BASE, "RL4COEnvBase.__setstate__", call_stmt("self.rng.set_state(state['rng'])")))

    # ---- call-history independence of the dataset writers: tables updated in place must be LOCAL to the call ---------------
    def table_is_local(func, name):
        """'true' if `name = {…}` (a dict literal, `.copy()`, `dict(…)` or `{**…}`) is assigned inside `func` before use;
        'false' if `func` reads or updates a module-level `name`; pattern-miss otherwise"""
        def run():
            tree = ex.parse(GD)
            fn = ex.find_function(tree, func) if tree else None
            if fn is None:
                return None
            for n in ast.walk(fn):
                if isinstance(n, ast.Assign) and len(n.targets) == 1 and isinstance(n.targets[0], ast.Name) and n.targets[0].id == name:
                    v = n.value
                    if isinstance(v, ast.Dict) or (isinstance(v, ast.Call) and ex.norm(v.func) in ("dict", "copy.deepcopy", "copy.copy", f"{name}.copy")):
                        return "true"
            uses = any(isinstance(n, ast.Name) and n.id == name for n in ast.walk(fn))
            module_level = any(isinstance(n, ast.Assign) and len(n.targets) == 1 and isinstance(n.targets[0], ast.Name) and n.targets[0].id == name
                               for n in tree.body)
            if uses and module_level:
                return "false"
            return None
        return run

    p("genDataVrpTableLocal", "Bool", "true",
      "data/generate_data.py:generate_vrp_data  the `CAPACITIES` table that `capacities=` overrides update in place is a local of the call",
      table_is_local("generate_vrp_data", "CAPACITIES"))

    # ---- PolyNet warm start: how checkpoint keys are mapped onto policy keys ----------------------------------------------
    PN = "rl4co/models/zoo/polynet/model.py"

    def polynet_keymap():
        tree = ex.parse(PN)
        fn = ex.find_function(tree, "PolyNet.__init__") if tree else None
        if fn is None:
            return None
        for n in ast.walk(fn):
            if isinstance(n, ast.DictComp) and ex.norm(n.value) == "v":
                k = ex.norm(n.key)
                if k == "k.replace('policy.','',1)":
                    return "true"
                if k in ("k.split('policy.',1)[-1]", "k.split('policy.')[-1]", "k.rsplit('policy.',1)[-1]", "k.replace('policy.','')"):
                    return "false"
        return None

    p("genPolynetKeyMapReplaceFirst", "Bool", "true",
      "polynet/model.py:__init__  warm start maps checkpoint keys with `k.replace('policy.', '', 1)` (strip the leading prefix only)",
      polynet_keymap)
