"""AST probes of the decoding family (`rl4co/utils/decoding.py`): the order of the stages of
`process_logits`, the comparison operators / arguments / index expressions of the top-k and top-p
filters, the mask fill, the loop condition of `DecodingStrategy.sampling` and the reduction used by
`DecodingStrategy.greedy`.  Regenerated into `Rl4co/Generated/Params.lean`; the model
`Rl4co/Decode/ProcessLogits.lean` is parametric in them and the unfolding lemmas of
`Rl4co/Proofs/LogitsLemmas.lean` need the committed values.  Every probe returns None (pattern-miss →
default) when its statement shape is not found."""
F = "rl4co/utils/decoding.py"


def register(ex):
    ast = ex.ast
    norm = ex.norm

    def fn(name):
        tree = ex.parse(F)
        return ex.find_function(tree, name) if tree else None

    def mentions(node, name):
        return any(isinstance(n, ast.Name) and n.id == name for n in ast.walk(node))

    def is_temp_div(node):
        return any(isinstance(n, ast.BinOp) and isinstance(n.op, ast.Div) and norm(n.right) == "temperature"
                   for n in ast.walk(node))

    # ---- process_logits: order of the stages -----------------------------------------------------
    def stage_order():
        f = fn("process_logits")
        if f is None:
            return None
        out = []
        for st in f.body:
            if isinstance(st, ast.Expr) and isinstance(st.value, ast.Constant):
                continue  # docstring
            if isinstance(st, ast.If):
                t = st.test
                if mentions(t, "tanh_clipping"):
                    tok = "clip"
                elif mentions(t, "mask_logits"):
                    tok = "mask"
                elif mentions(t, "top_k"):
                    tok = "topk"
                elif mentions(t, "top_p"):
                    tok = "topp"
                else:
                    return None
                if is_temp_div(st):
                    return None
                out.append(tok)
            elif isinstance(st, (ast.Assign, ast.AugAssign)):
                if is_temp_div(st) or (isinstance(st, ast.AugAssign) and isinstance(st.op, ast.Div)
                                       and norm(st.value) == "temperature"):
                    out.append("temp")
                else:
                    return None
            elif isinstance(st, ast.Return):
                if not any(isinstance(n, ast.Attribute) and n.attr == "log_softmax" for n in ast.walk(st)):
                    return None
                if is_temp_div(st):
                    out.append("temp")
                out.append("logsoftmax")
            else:
                return None
        if sorted(out) != sorted(["clip", "mask", "temp", "topk", "topp", "logsoftmax"]):
            return None
        return "[" + ", ".join(f'"{t}"' for t in out) + "]"

    ex.probe("logitsStageOrder", "List String", '["clip", "mask", "temp", "topk", "topp", "logsoftmax"]',
             "utils/decoding.py:process_logits  order of the statements: tanh clipping, mask fill, `/ temperature`, "
             "top-k filter, top-p filter, log_softmax", stage_order)

    def if_of(fname, var):
        f = fn(fname)
        if f is None:
            return None
        hits = [st for st in f.body if isinstance(st, ast.If) and mentions(st.test, var)]
        return hits[0] if len(hits) == 1 else None

    def guard_cmp(var, const):
        def run():
            st = if_of("process_logits", var)
            if st is None or not isinstance(st.test, ast.Compare) or len(st.test.ops) != 1:
                return None
            t = st.test
            if norm(t.left) == var and norm(t.comparators[0]) == const and type(t.ops[0]) in ex.CMP:
                return "." + ex.CMP[type(t.ops[0])]
            return None
        return run

    ex.probe("logitsTopkOnCmp", "Cmp", ".gt", "utils/decoding.py:process_logits  `if top_k > 0:`", guard_cmp("top_k", "0"))
    ex.probe("logitsToppOnCmp", "Cmp", ".gt", "utils/decoding.py:process_logits  `if top_p > 0:`", guard_cmp("top_p", "0"))

    def stage_guards():
        """for the guarded stages: is the guard a plain value test `<option> <cmp> <const>` (true), or does it also
        test the *representation* of the option (isinstance / type(...) — false)?  Other shapes: pattern-miss."""
        out = []
        for name, var in (("clip", "tanh_clipping"), ("topk", "top_k"), ("topp", "top_p")):
            st = if_of("process_logits", var)
            if st is None:
                return None
            t = st.test
            typed = any(isinstance(n, ast.Call) and norm(n.func) in ("isinstance", "type", "torch.is_tensor", "callable")
                        for n in ast.walk(t))
            plain = (isinstance(t, ast.Compare) and len(t.ops) == 1 and norm(t.left) == var
                     and isinstance(t.comparators[0], ast.Constant))
            if typed:
                out.append((name, "false"))
            elif plain:
                out.append((name, "true"))
            else:
                return None
        return "[" + ", ".join(f'("{n}", {v})' for n, v in out) + "]"

    ex.probe("logitsStageGuards", "List (String × Bool)", '[("clip", true), ("topk", true), ("topp", true)]',
             "utils/decoding.py:process_logits  the guards `if tanh_clipping > 0`, `if top_k > 0`, `if top_p > 0` test only the "
             "VALUE of the option (false: the guard also tests its representation, e.g. isinstance(top_k, int))", stage_guards)

    def topk_clamp():
        st = if_of("process_logits", "top_k")
        if st is None:
            return None
        for n in ast.walk(st):
            if isinstance(n, ast.Assign) and norm(n.targets[0]) == "top_k":
                v = n.value
                if isinstance(v, ast.Call) and norm(v.func) == "min" and len(v.args) == 2 and \
                        {norm(a) for a in v.args} == {"top_k", "logits.size(-1)"}:
                    return "true"
                return None
        return "false"  # no reassignment of top_k inside the branch

    ex.probe("logitsTopkClampMin", "Bool", "true",
             "utils/decoding.py:process_logits  `top_k = min(top_k, logits.size(-1))`", topk_clamp)

    def mask_fill():
        st = if_of("process_logits", "mask_logits")
        if st is None:
            return None
        for n in ast.walk(st):
            if isinstance(n, ast.Assign) and isinstance(n.targets[0], ast.Subscript) and norm(n.targets[0].value) == "logits":
                idx = norm(n.targets[0].slice)
                val = norm(n.value)
                if idx not in ("~mask", "mask"):
                    return None
                neg = val in ("float('-inf')", "-float('inf')", "-math.inf", "-torch.inf", "-inf")
                return f"({'true' if idx == '~mask' else 'false'}, {'true' if neg else 'false'})"
        return None

    ex.probe("logitsMaskFill", "Bool × Bool", "(true, true)",
             "utils/decoding.py:process_logits  `logits[~mask] = float('-inf')`  (index is the negated mask, value is -inf)",
             mask_fill)

    # ---- top-k filter ------------------------------------------------------------------------------
    def topk_filter():
        f = fn("modify_logits_for_top_k_filtering")
        if f is None:
            return None
        hits = []
        for n in ast.walk(f):
            if isinstance(n, ast.Compare) and len(n.ops) == 1 and norm(n.left) == "logits" and type(n.ops[0]) in ex.CMP:
                r = n.comparators[0]
                calls = [c for c in ast.walk(r) if isinstance(c, ast.Call) and norm(c.func) == "torch.topk"]
                if len(calls) != 1 or len(calls[0].args) != 2 or norm(calls[0].args[0]) != "logits":
                    continue
                a = calls[0].args[1]
                if norm(a) == "top_k":
                    plus = 0
                elif isinstance(a, ast.BinOp) and isinstance(a.op, ast.Add) and norm(a.left) == "top_k" and \
                        isinstance(a.right, ast.Constant) and isinstance(a.right.value, int):
                    plus = a.right.value
                else:
                    continue
                # torch.topk(...)[0][..., -e, None]
                if not (isinstance(r, ast.Subscript) and isinstance(r.slice, ast.Tuple) and len(r.slice.elts) == 3):
                    continue
                e = r.slice.elts[1]
                if isinstance(e, ast.UnaryOp) and isinstance(e.op, ast.USub) and isinstance(e.operand, ast.Constant):
                    from_end = e.operand.value
                else:
                    continue
                if norm(r.value) != f"torch.topk(logits,{norm(a)})[0]" or norm(r.slice.elts[0]) != "..." or plus < 0 or from_end < 1:
                    continue
                hits.append((ex.CMP[type(n.ops[0])], plus, from_end))
        if len(hits) != 1:
            return None
        c, plus, from_end = hits[0]
        return f"(.{c}, {plus}, {from_end})"

    ex.probe("logitsTopkFilter", "Cmp × Nat × Nat", "(.lt, 0, 1)",
             "utils/decoding.py:modify_logits_for_top_k_filtering  `logits < torch.topk(logits, top_k + a)[0][..., -e, None]` "
             "as (operator, a, e)", topk_filter)

    # ---- top-p filter ------------------------------------------------------------------------------
    def topp_guard():
        f = fn("modify_logits_for_top_p_filtering")
        if f is None:
            return None
        for st in f.body:
            if isinstance(st, ast.If) and isinstance(st.test, ast.BoolOp) and isinstance(st.test.op, ast.Or) \
                    and len(st.test.values) == 2 and len(st.body) == 1 and isinstance(st.body[0], ast.Return) \
                    and norm(st.body[0].value) == "logits":
                a, b = st.test.values
                ok = lambda c, k: (isinstance(c, ast.Compare) and len(c.ops) == 1 and norm(c.left) == "top_p"
                                   and norm(c.comparators[0]) in k and type(c.ops[0]) in ex.CMP)
                if ok(a, ("0.0", "0")) and ok(b, ("1.0", "1")):
                    return f"[.{ex.CMP[type(a.ops[0])]}, .{ex.CMP[type(b.ops[0])]}]"
        return None

    ex.probe("logitsToppGuardCmps", "List Cmp", "[.le, .ge]",
             "utils/decoding.py:modify_logits_for_top_p_filtering  `if top_p <= 0.0 or top_p >= 1.0: return logits`", topp_guard)

    def topp_sort_desc():
        f = fn("modify_logits_for_top_p_filtering")
        if f is None:
            return None
        calls = [c for c in ast.walk(f) if isinstance(c, ast.Call) and norm(c.func) == "torch.sort"]
        if len(calls) != 1 or not calls[0].args or norm(calls[0].args[0]) != "logits":
            return None
        kw = {k.arg: k.value for k in calls[0].keywords}
        if "descending" not in kw:
            return "false"
        v = kw["descending"]
        return ("true" if v.value else "false") if isinstance(v, ast.Constant) and isinstance(v.value, bool) else None

    ex.probe("logitsSortDescending", "Bool", "false",
             "utils/decoding.py:modify_logits_for_top_p_filtering  `torch.sort(logits, descending=False)`", topp_sort_desc)

    def topp_cmp():
        f = fn("modify_logits_for_top_p_filtering")
        if f is None:
            return None
        hits = []
        for n in ast.walk(f):
            if isinstance(n, ast.Compare) and len(n.ops) == 1 and norm(n.left) == "cumulative_probs" and type(n.ops[0]) in ex.CMP:
                r = norm(n.comparators[0])
                if r == "1-top_p":
                    hits.append((ex.CMP[type(n.ops[0])], "true"))
                elif r == "top_p":
                    hits.append((ex.CMP[type(n.ops[0])], "false"))
        return f"(.{hits[0][0]}, {hits[0][1]})" if len(hits) == 1 else None

    ex.probe("logitsToppCmp", "Cmp × Bool", "(.le, true)",
             "utils/decoding.py:modify_logits_for_top_p_filtering  `cumulative_probs <= (1 - top_p)` as (operator, "
             "threshold is `1 - top_p`)", topp_cmp)

    def topp_protected():
        f = fn("modify_logits_for_top_p_filtering")
        if f is None:
            return None
        hits = []
        for st in f.body:
            if isinstance(st, ast.Assign) and isinstance(st.targets[0], ast.Subscript) and \
                    norm(st.targets[0].value) == "sorted_indices_to_remove" and isinstance(st.value, ast.Constant) \
                    and st.value.value is False:
                sl = st.targets[0].slice
                if isinstance(sl, ast.Tuple) and len(sl.elts) == 2 and norm(sl.elts[0]) == "...":
                    try:
                        hits.append(int(ast.literal_eval(sl.elts[1])))
                    except Exception:
                        return None
        return f"({hits[0]})" if len(hits) == 1 else None

    ex.probe("logitsToppProtectedIdx", "Int", "(-1)",
             "utils/decoding.py:modify_logits_for_top_p_filtering  `sorted_indices_to_remove[..., -1] = False`", topp_protected)

    # ---- selection ---------------------------------------------------------------------------------
    def sampling_loop():
        f = fn("DecodingStrategy.sampling")
        if f is None:
            return None
        loops = [n for n in ast.walk(f) if isinstance(n, ast.While)]
        if len(loops) != 1:
            return None
        t = loops[0].test
        red = None
        for n in ast.walk(t):
            if isinstance(n, ast.Attribute) and n.attr in ("any", "all"):
                red = n.attr
        if red is None:
            return None
        s = norm(t)
        if s.startswith("(~mask).gather(1,selected.unsqueeze(-1))"):
            inf = "true"
        elif s.startswith("mask.gather(1,selected.unsqueeze(-1))"):
            inf = "false"
        else:
            return None
        return f"({'true' if red == 'any' else 'false'}, {inf})"

    ex.probe("logitsSampleLoop", "Bool × Bool", "(true, true)",
             "utils/decoding.py:DecodingStrategy.sampling  `while (~mask).gather(1, selected.unsqueeze(-1)).data.any():` "
             "as (reduction is any, tested flag is the negated mask)", sampling_loop)

    def greedy_reduce():
        f = fn("DecodingStrategy.greedy")
        if f is None:
            return None
        for n in ast.walk(f):
            if isinstance(n, ast.Assign) and norm(n.targets[0]) == "selected" and isinstance(n.value, ast.Call) \
                    and isinstance(n.value.func, ast.Attribute) and norm(n.value.func.value) == "logprobs":
                if n.value.func.attr == "argmax":
                    return "true"
                if n.value.func.attr == "argmin":
                    return "false"
        return None

    ex.probe("logitsGreedyArgmax", "Bool", "true",
             "utils/decoding.py:DecodingStrategy.greedy  `selected = logprobs.argmax(dim=-1)`", greedy_reduce)
