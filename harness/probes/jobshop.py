"""Probes of the job-shop family (FJSPEnv, inherited by JSSPEnv): the comparison operators of the
availability mask, of the time advance and of the job release.  The Lean model `Rl4co/Env/Fjsp.lean`
hard-codes these operators; `Rl4co/Proofs/FjspParams.lean` proves (by `decide`) that the extracted
values are the ones the model uses, so flipping one of them in the source breaks that obligation at
`lake build` (and the correspondence then produces the failing input)."""

F = "rl4co/envs/scheduling/fjsp/env.py"


def method_cmp_probe(ex, rel, func, recv, arg_prefix):
    """operator of a tensor-method comparison `recv.gt(arg…)` / `.ge` / `.lt` / `.le` / `.eq` / `.ne`"""
    import ast

    R = recv.replace(" ", "").replace('"', "'")
    A = arg_prefix.replace(" ", "").replace('"', "'")

    def run():
        tree = ex.parse(rel)
        fn = ex.find_function(tree, func) if tree else None
        if fn is None:
            return None
        hits = []
        for n in ast.walk(fn):
            if (isinstance(n, ast.Call) and isinstance(n.func, ast.Attribute)
                    and n.func.attr in ("gt", "ge", "lt", "le", "eq", "ne") and len(n.args) == 1
                    and ex.norm(n.func.value) == R and ex.norm(n.args[0]).startswith(A)):
                hits.append(n.func.attr)
        return "." + hits[0] if len(hits) == 1 else None

    return run


def register(ex):
    ex.probe("fjspBusyCmp", "Cmp", ".gt",
             "fjsp/env.py:_get_job_machine_availability  `td['busy_until'].gt(td['time'].unsqueeze(1))` (machine masked)",
             method_cmp_probe(ex, F, "FJSPEnv._get_job_machine_availability", "td['busy_until']", "td['time']"))
    ex.probe("fjspEligCmp", "Cmp", ".eq",
             "fjsp/env.py:_get_job_machine_availability  `next_ops_proc_times == 0` (machine not eligible)",
             ex.cmp_probe(F, "FJSPEnv._get_job_machine_availability", "next_ops_proc_times", "0"))
    ex.probe("fjspNextTimeCmp", "Cmp", ".gt",
             "fjsp/env.py:_transit_to_next_time  `available_time_ma > td['time'][:, None]` (candidate event times)",
             ex.cmp_probe(F, "FJSPEnv._transit_to_next_time", "available_time_ma", "td['time'][:, None]"))
    ex.probe("fjspReleaseCmp", "Cmp", ".le",
             "fjsp/env.py:_transit_to_next_time  `curr_ops_end <= td['time'][:, None]` (operation finished)",
             ex.cmp_probe(F, "FJSPEnv._transit_to_next_time", "curr_ops_end", "td['time'][:, None]"))
    ex.probe("fjspJobFinCmp", "Cmp", ".eq",
             "fjsp/env.py:_transit_to_next_time  `td['next_op'] == end_op_per_job` (last operation of the job)",
             ex.cmp_probe(F, "FJSPEnv._transit_to_next_time", "td['next_op']", "end_op_per_job"))
