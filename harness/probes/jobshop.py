"""Probes of the job-shop family (FJSPEnv, inherited by JSSPEnv): the comparison operators of the
availability mask, of the time advance and of the job release.  The Lean model `Rl4co/Env/Fjsp.lean`
hard-codes these operators; `Rl4co/Proofs/FjspParams.lean` proves (by `decide`) that the extracted
values are the ones the model uses, so flipping one of them in the source breaks that obligation at
`lake build` (and the correspondence then produces the failing input)."""

F = "rl4co/envs/scheduling/fjsp/env.py"


def method_cmp_probe(ex, rel, func, recv, arg_prefix):
    """operator of a tensor-method comparison `recv.gt(arg…)` / `.ge` / `.lt` / `.le` / `.eq` / `.ne`"""
    import ast

    R = recv.replace(" ", "").replace('"', "'")
    A = arg_prefix.replace(" ", "").replace('"', "'")

    def run():
        tree = ex.parse(rel)
        fn = ex.find_function(tree, func) if tree else None
        if fn is None:
            return None
        hits = []
        for n in ast.walk(fn):
            if (isinstance(n, ast.Call) and isinstance(n.func, ast.Attribute)
                    and n.func.attr in ("gt", "ge", "lt", "le", "eq", "ne") and len(n.args) == 1
                    and ex.norm(n.func.value) == R and ex.norm(n.args[0]).startswith(A)):
                hits.append(n.func.attr)
        return "." + hits[0] if len(hits) == 1 else None

    return run


def register(ex):
    ex.probe("fjspBusyCmp", "Cmp", ".gt",
             "fjsp/env.py:_get_job_machine_availability  `td['busy_until'].gt(td['time'].unsqueeze(1))` (machine masked)",
             method_cmp_probe(ex, F, "FJSPEnv._get_job_machine_availability", "td['busy_until']", "td['time']"))
    ex.probe("fjspEligCmp", "Cmp", ".eq",
             "fjsp/env.py:_get_job_machine_availability  `next_ops_proc_times == 0` (machine not eligible)",
             ex.cmp_probe(F, "FJSPEnv._get_job_machine_availability", "next_ops_proc_times", "0"))
    ex.probe("fjspNextTimeCmp", "Cmp", ".gt",
             "fjsp/env.py:_transit_to_next_time  `available_time_ma > td['time'][:, None]` (candidate event times)",
             ex.cmp_probe(F, "FJSPEnv._transit_to_next_time", "available_time_ma", "td['time'][:, None]"))
    ex.probe("fjspReleaseCmp", "Cmp", ".le",
             "fjsp/env.py:_transit_to_next_time  `curr_ops_end <= td['time'][:, None]` (operation finished)",
             ex.cmp_probe(F, "FJSPEnv._transit_to_next_time", "curr_ops_end", "td['time'][:, None]"))
    ex.probe("fjspJobFinCmp", "Cmp", ".eq",
             "fjsp/env.py:_transit_to_next_time  `td['next_op'] == end_op_per_job` (last operation of the job)",
             ex.cmp_probe(F, "FJSPEnv._transit_to_next_time", "td['next_op']", "end_op_per_job"))


# ---- growth round: index expressions / reductions -------------------------------------------------
def _fn(ex, rel, func):
    tree = ex.parse(rel)
    return ex.find_function(tree, func) if tree else None


def binop_assign_probe(ex, rel, func, target, left, right, true_op, false_op):
    """`target = left <op> right`: "true" if <op> is `true_op`, "false" if it is `false_op`, miss otherwise"""
    import ast

    L, R = left.replace('"', "'").replace(" ", ""), right.replace(" ", "")

    def run():
        fn = _fn(ex, rel, func)
        if fn is None:
            return None
        hits = []
        for n in ast.walk(fn):
            if (isinstance(n, ast.Assign) and len(n.targets) == 1 and ex.norm(n.targets[0]) == target
                    and isinstance(n.value, ast.BinOp) and ex.norm(n.value.left) == L and ex.norm(n.value.right) == R):
                if isinstance(n.value.op, true_op):
                    hits.append("true")
                elif isinstance(n.value.op, false_op):
                    hits.append("false")
        return hits[0] if len(hits) == 1 else None

    return run


def reduction_probe(ex, rel, func, recv_prefix, true_attr, false_attr, through=()):
    """the reduction method (`.min(…)` / `.max(…)`) applied to an expression starting with `recv_prefix`
    (optionally through intermediate method calls such as `masked_fill`)"""
    import ast

    P = recv_prefix.replace('"', "'").replace(" ", "")

    def run():
        fn = _fn(ex, rel, func)
        if fn is None:
            return None
        hits = []
        for n in ast.walk(fn):
            if isinstance(n, ast.Call) and isinstance(n.func, ast.Attribute) and n.func.attr in (true_attr, false_attr):
                if ex.norm(n.func.value).startswith(P):
                    hits.append("true" if n.func.attr == true_attr else "false")
        return hits[0] if len(hits) == 1 else None

    return run


def masked_fill_probe(ex, rel, func, recv, mask):
    """is `recv` reduced only after `.masked_fill(mask, …)`?  true / false (recv reduced directly) / miss"""
    import ast

    Rv, Mk = recv.replace('"', "'").replace(" ", ""), mask.replace('"', "'").replace(" ", "")

    def run():
        fn = _fn(ex, rel, func)
        if fn is None:
            return None
        filled, direct = 0, 0
        for n in ast.walk(fn):
            if isinstance(n, ast.Call) and isinstance(n.func, ast.Attribute):
                if n.func.attr == "masked_fill" and ex.norm(n.func.value) == Rv and n.args and ex.norm(n.args[0]) == Mk:
                    filled += 1
                if n.func.attr in ("max", "min") and ex.norm(n.func.value) == Rv:
                    direct += 1
        if filled == 1 and direct == 0:
            return "true"
        if filled == 0 and direct == 1:
            return "false"
        return None

    return run


def module_const_probe(ex, rel, name):
    """integral module-level constant `NAME = <number>` (possibly negative / written as a float)"""
    import ast

    def run():
        tree = ex.parse(rel)
        if tree is None:
            return None
        for n in tree.body:
            if isinstance(n, ast.Assign) and len(n.targets) == 1 and ex.norm(n.targets[0]) == name:
                try:
                    v = ast.literal_eval(n.value)
                except Exception:
                    return None
                if isinstance(v, (int, float)) and float(v) == int(v):
                    return str(int(v)) if int(v) >= 0 else f"({int(v)})"
        return None

    return run


def inplace_shift_probe(ex, rel, func, recv):
    """`recv.subtract_(k)` → k, `recv.add_(k)` → −k (integral literal k)"""
    import ast

    R = recv.replace('"', "'").replace(" ", "")

    def run():
        fn = _fn(ex, rel, func)
        if fn is None:
            return None
        hits = []
        for n in ast.walk(fn):
            if (isinstance(n, ast.Call) and isinstance(n.func, ast.Attribute) and n.func.attr in ("subtract_", "sub_", "add_")
                    and ex.norm(n.func.value) == R and len(n.args) == 1 and isinstance(n.args[0], ast.Constant)
                    and isinstance(n.args[0].value, int)):
                k = n.args[0].value if n.func.attr != "add_" else -n.args[0].value
                hits.append(str(k) if k >= 0 else f"({k})")
        return hits[0] if len(hits) == 1 else None

    return run


def or_done_probe(ex, rel, func):
    """the (single) non-trivial assignment `no_op_mask = <expr>`: is it `<something> | td['done']`?"""
    import ast

    def run():
        fn = _fn(ex, rel, func)
        if fn is None:
            return None
        hits = []
        for n in ast.walk(fn):
            if isinstance(n, ast.Assign) and len(n.targets) == 1 and ex.norm(n.targets[0]) == "no_op_mask":
                if ex.norm(n.value) == "td['done']":
                    continue  # the mask_no_ops=True branch
                v = n.value
                if isinstance(v, ast.BinOp) and isinstance(v.op, ast.BitOr) and "td['done']" in (ex.norm(v.left), ex.norm(v.right)):
                    hits.append("true")
                else:
                    hits.append("false")
        return hits[0] if len(hits) == 1 else None

    return run


def and_guard_probe(ex, rel, func, target, guard):
    """`target = guard & (…)` (either operand order): true; `target = <expr without guard>`: false"""
    import ast

    G = guard.replace('"', "'").replace(" ", "")

    def run():
        fn = _fn(ex, rel, func)
        if fn is None:
            return None
        hits = []
        for n in ast.walk(fn):
            if isinstance(n, ast.Assign) and len(n.targets) == 1 and ex.norm(n.targets[0]) == target:
                v = n.value
                if isinstance(v, ast.BinOp) and isinstance(v.op, ast.BitAnd) and G in (ex.norm(v.left), ex.norm(v.right)):
                    hits.append("true")
                elif G not in ex.norm(v):
                    hits.append("false")
        return hits[0] if len(hits) == 1 else None

    return run


_register_round1 = register


def register(ex):
    import ast

    _register_round1(ex)
    ex.probe("fjspJobIsDiv", "Bool", "true",
             "fjsp/env.py:_translate_action  `selected_job = td['action'] // self.num_mas` (true) / `%` (false)",
             binop_assign_probe(ex, F, "FJSPEnv._translate_action", "selected_job", "td['action']", "self.num_mas",
                                ast.FloorDiv, ast.Mod))
    ex.probe("fjspMachineIsMod", "Bool", "true",
             "fjsp/env.py:_translate_action  `selected_machine = td['action'] % self.num_mas` (true) / `//` (false)",
             binop_assign_probe(ex, F, "FJSPEnv._translate_action", "selected_machine", "td['action']", "self.num_mas",
                                ast.Mod, ast.FloorDiv))
    ex.probe("fjspNextEventIsMin", "Bool", "true",
             "fjsp/env.py:_transit_to_next_time  `torch.where(busy > time, busy, inf).min(1)` (true) / `.max(1)` (false)",
             reduction_probe(ex, F, "FJSPEnv._transit_to_next_time", "torch.where(", "min", "max"))
    ex.probe("fjspRewardIsMax", "Bool", "true",
             "fjsp/env.py:_get_reward  `-finish_times….max(1)` (true) / `.min(1)` (false)",
             reduction_probe(ex, F, "FJSPEnv._get_reward", "td['finish_times']", "max", "min"))
    ex.probe("fjspRewardMasksPadding", "Bool", "true",
             "fjsp/env.py:_get_reward  `finish_times.masked_fill(td['pad_mask'], -inf)` before the reduction (true) / not (false)",
             masked_fill_probe(ex, F, "FJSPEnv._get_reward", "td['finish_times']", "td['pad_mask']"))
    I = "rl4co/envs/scheduling/fjsp/__init__.py"
    ex.probe("fjspInitFinish", "Int", "9999", "fjsp/__init__.py  `INIT_FINISH = 9999.0` (filler of finish_times)",
             module_const_probe(ex, I, "INIT_FINISH"))
    ex.probe("fjspNoOpId", "Int", "(-1)", "fjsp/__init__.py  `NO_OP_ID = -1` (the shifted action that means `wait`)",
             module_const_probe(ex, I, "NO_OP_ID"))
    ex.probe("fjspActionShift", "Int", "1", "fjsp/env.py:_step  `td['action'].subtract_(1)`",
             inplace_shift_probe(ex, F, "FJSPEnv._step", "td['action']"))
    # growth round 2: structure of the wait mask and of the release test
    ex.probe("fjspNoOpKeepsDone", "Bool", "true",
             "fjsp/env.py:FJSPEnv.get_action_mask (mask_no_ops=False)  `no_op_mask = (… & ~done) | td['done']` (true) / no `| done` (false)",
             or_done_probe(ex, F, "FJSPEnv.get_action_mask"))
    ex.probe("jsspNoOpKeepsDone", "Bool", "true",
             "jssp/env.py:JSSPEnv.get_action_mask (mask_no_ops=False)  `no_op_mask = (… & ~done) | td['done']` (true) / no `| done` (false)",
             or_done_probe(ex, "rl4co/envs/scheduling/jssp/env.py", "JSSPEnv.get_action_mask"))
    ex.probe("fjspReleaseGuardsInProcess", "Bool", "true",
             "fjsp/env.py:_transit_to_next_time  `op_finished = td['job_in_process'] & (curr_ops_end <= time)` (true) / guard missing (false)",
             and_guard_probe(ex, F, "FJSPEnv._transit_to_next_time", "op_finished", "td['job_in_process']"))
