"""AST probes for rl4co/envs/routing/mtvrp/env.py: the comparison operators of the mask, the checker and
the termination test.  The Lean model `Rl4co/Env/Mtvrp.lean` is parametric in them."""

MT = "rl4co/envs/routing/mtvrp/env.py"


def register(ex):
    p, c = ex.probe, ex.cmp_probe
    p("mtvrpMaskTwCmp", "Cmp", ".le", "mtvrp/env.py:get_action_mask  `arrival_time <= late_tw` (customer deadline)",
      c(MT, "MTVRPEnv.get_action_mask", "arrival_time", "late_tw"))
    p("mtvrpMaskDepotCmp", "Cmp", ".le",
      "mtvrp/env.py:get_action_mask  `(max(arrival, early) + service + d_j0 / speed) * ~open_route <= late_tw[..., 0:1]`",
      c(MT, "MTVRPEnv.get_action_mask",
        "(torch.max(arrival_time, early_tw) + td['service_time'] + d_j0 / td['speed']) * ~td['open_route']",
        "late_tw[..., 0:1]"))
    p("mtvrpMaskLimitCmp", "Cmp", ".gt",
      "mtvrp/env.py:get_action_mask  `current_route_length + d_ij + d_j0 * ~open_route > distance_limit`",
      c(MT, "MTVRPEnv.get_action_mask", "td['current_route_length'] + d_ij + d_j0 * ~td['open_route']",
        "td['distance_limit']"))
    p("mtvrpMaskCapLCmp", "Cmp", ".gt",
      "mtvrp/env.py:get_action_mask  `demand_linehaul + used_capacity_linehaul > vehicle_capacity`",
      c(MT, "MTVRPEnv.get_action_mask", "td['demand_linehaul'] + td['used_capacity_linehaul']", "td['vehicle_capacity']"))
    p("mtvrpMaskCapBCmp", "Cmp", ".gt",
      "mtvrp/env.py:get_action_mask  `demand_backhaul + used_capacity_backhaul > vehicle_capacity`",
      c(MT, "MTVRPEnv.get_action_mask", "td['demand_backhaul'] + td['used_capacity_backhaul']", "td['vehicle_capacity']"))
    p("mtvrpDoneCmp", "Cmp", ".eq", "mtvrp/env.py:_step  `visited.sum(-1) == visited.size(-1)`",
      c(MT, "MTVRPEnv._step", "visited.sum(-1)", "visited.size(-1)"))
    p("mtvrpCheckLimitCmp", "Cmp", ".le",
      "mtvrp/env.py:check_solution_validity  `curr_length <= distance_limit`",
      c(MT, "MTVRPEnv.check_solution_validity", "curr_length", "td['distance_limit'].squeeze(-1)"))
    p("mtvrpCheckTwCmp", "Cmp", ".le",
      "mtvrp/env.py:check_solution_validity  `curr_time <= time_windows[next_node][1]`",
      c(MT, "MTVRPEnv.check_solution_validity", "curr_time", "gather_by_index(td['time_windows'], next_node)[..., 1]"))
    p("mtvrpCheckCapCmp", "Cmp", ".le",
      "mtvrp/env.py:check_solution_validity._check_c1  `used_cap <= vehicle_capacity.squeeze(-1)`",
      c(MT, "MTVRPEnv.check_solution_validity", "used_cap", "td['vehicle_capacity'].squeeze(-1)"))
