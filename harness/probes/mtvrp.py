"""AST probes for rl4co/envs/routing/mtvrp/env.py: the comparison operators of the mask, the checker and
the termination test, and the decision-critical expression shapes of `_get_reward` (roll direction, which end
of a leg is tested against the depot), `_step` (reset guard, clock update) and the depot rule of the mask.
The Lean model `Rl4co/Env/Mtvrp.lean` is parametric in all of them; `Rl4co/Proofs/MtvrpRun.lean` proves the
unfolding lemmas (`moved_eq`, `legTime_eq`, `depotRule_eq`, `reward_eq`) the property theorems rest on, so a
one-token edit of any of these expressions breaks a proof obligation at `lake build`.
A probe that does not find its statement shape returns None (pattern-miss → committed default, never an alarm)."""
import ast

MT = "rl4co/envs/routing/mtvrp/env.py"


def register(ex):
    _shape_probes(ex)
    p, c = ex.probe, ex.cmp_probe
    p("mtvrpMaskTwCmp", "Cmp", ".le", "mtvrp/env.py:get_action_mask  `arrival_time <= late_tw` (customer deadline)",
      c(MT, "MTVRPEnv.get_action_mask", "arrival_time", "late_tw"))
    p("mtvrpMaskDepotCmp", "Cmp", ".le",
      "mtvrp/env.py:get_action_mask  `(max(arrival, early) + service + d_j0 / speed) * ~open_route <= late_tw[..., 0:1]`",
      c(MT, "MTVRPEnv.get_action_mask",
        "(torch.max(arrival_time, early_tw) + td['service_time'] + d_j0 / td['speed']) * ~td['open_route']",
        "late_tw[..., 0:1]"))
    p("mtvrpMaskLimitCmp", "Cmp", ".gt",
      "mtvrp/env.py:get_action_mask  `current_route_length + d_ij + d_j0 * ~open_route > distance_limit`",
      c(MT, "MTVRPEnv.get_action_mask", "td['current_route_length'] + d_ij + d_j0 * ~td['open_route']",
        "td['distance_limit']"))
    p("mtvrpMaskCapLCmp", "Cmp", ".gt",
      "mtvrp/env.py:get_action_mask  `demand_linehaul + used_capacity_linehaul > vehicle_capacity`",
      c(MT, "MTVRPEnv.get_action_mask", "td['demand_linehaul'] + td['used_capacity_linehaul']", "td['vehicle_capacity']"))
    p("mtvrpMaskCapBCmp", "Cmp", ".gt",
      "mtvrp/env.py:get_action_mask  `demand_backhaul + used_capacity_backhaul > vehicle_capacity`",
      c(MT, "MTVRPEnv.get_action_mask", "td['demand_backhaul'] + td['used_capacity_backhaul']", "td['vehicle_capacity']"))
    p("mtvrpDoneCmp", "Cmp", ".eq", "mtvrp/env.py:_step  `visited.sum(-1) == visited.size(-1)`",
      c(MT, "MTVRPEnv._step", "visited.sum(-1)", "visited.size(-1)"))
    p("mtvrpCheckLimitCmp", "Cmp", ".le",
      "mtvrp/env.py:check_solution_validity  `curr_length <= distance_limit`",
      c(MT, "MTVRPEnv.check_solution_validity", "curr_length", "td['distance_limit'].squeeze(-1)"))
    p("mtvrpCheckTwCmp", "Cmp", ".le",
      "mtvrp/env.py:check_solution_validity  `curr_time <= time_windows[next_node][1]`",
      c(MT, "MTVRPEnv.check_solution_validity", "curr_time", "gather_by_index(td['time_windows'], next_node)[..., 1]"))
    p("mtvrpCheckCapCmp", "Cmp", ".le",
      "mtvrp/env.py:check_solution_validity._check_c1  `used_cap <= vehicle_capacity.squeeze(-1)`",
      c(MT, "MTVRPEnv.check_solution_validity", "used_cap", "td['vehicle_capacity'].squeeze(-1)"))


def _shape_probes(ex):
    """probes that look at expression shapes rather than at one comparison"""
    norm = ex.norm

    def fn(name):
        tree = ex.parse(MT)
        return ex.find_function(tree, "MTVRPEnv." + name) if tree else None

    def lean_int(v):
        return f"({v})" if v < 0 else str(v)

    def roll_shift():
        f = fn("_get_reward")
        if f is None:
            return None
        hits = []
        for n in ast.walk(f):
            if isinstance(n, ast.Call) and norm(n.func) == "torch.roll" and len(n.args) >= 2 and norm(n.args[0]) == "go_from":
                try:
                    hits.append(int(ast.literal_eval(n.args[1])))
                except Exception:
                    return None
        return lean_int(hits[0]) if len(hits) == 1 else None

    def free_leg_is_to():
        # `~((X == 0) & td["open_route"])` in _get_reward: X = go_to → true, X = go_from → false
        f = fn("_get_reward")
        if f is None:
            return None
        hits = []
        for n in ast.walk(f):
            if isinstance(n, ast.UnaryOp) and isinstance(n.op, ast.Invert) and isinstance(n.operand, ast.BinOp) \
                    and isinstance(n.operand.op, ast.BitAnd):
                sides = [n.operand.left, n.operand.right]
                if not any(norm(x) == "td['open_route']" for x in sides):
                    continue
                for x in sides:
                    if isinstance(x, ast.Compare) and len(x.ops) == 1 and isinstance(x.ops[0], ast.Eq) \
                            and norm(x.comparators[0]) == "0" and norm(x.left) in ("go_to", "go_from"):
                        hits.append(norm(x.left))
        return {"go_to": "true", "go_from": "false"}.get(hits[0]) if len(hits) == 1 else None

    def step_guard():
        # every `(curr_node[:, None] <op> 0) * (...)` multiplier of _step must use the same operator
        f = fn("_step")
        if f is None:
            return None
        ops = set()
        for n in ast.walk(f):
            if isinstance(n, ast.Compare) and len(n.ops) == 1 and type(n.ops[0]) in ex.CMP \
                    and norm(n.left) == "curr_node[:,None]" and norm(n.comparators[0]) == "0":
                ops.add(ex.CMP[type(n.ops[0])])
        return "." + ops.pop() if len(ops) == 1 else None

    def step_clock_div_speed():
        # torch.max(td["current_time"] + <leg>, start_times): <leg> = distance / td["speed"] → true, distance → false
        f = fn("_step")
        if f is None:
            return None
        hits = []
        for n in ast.walk(f):
            if isinstance(n, ast.Call) and norm(n.func) == "torch.max" and len(n.args) == 2 and norm(n.args[1]) == "start_times":
                a = n.args[0]
                if isinstance(a, ast.BinOp) and isinstance(a.op, ast.Add) and norm(a.left) == "td['current_time']":
                    hits.append(norm(a.right))
        if len(hits) != 1:
            return None
        return {"distance/td['speed']": "true", "distance": "false"}.get(hits[0])

    def depot_rule():
        # can_visit[:, 0] = ~((curr_node <op1> 0) & (can_visit[:, 1:].sum(-1) <op2> 0))
        f = fn("get_action_mask")
        if f is None:
            return None
        for n in ast.walk(f):
            if isinstance(n, ast.Assign) and len(n.targets) == 1 and norm(n.targets[0]) == "can_visit[:,0]":
                v, neg = n.value, False
                if isinstance(v, ast.UnaryOp) and isinstance(v.op, ast.Invert):
                    v, neg = v.operand, True
                if isinstance(v, ast.BinOp) and isinstance(v.op, ast.BitAnd):
                    l, r = v.left, v.right
                    if all(isinstance(x, ast.Compare) and len(x.ops) == 1 and type(x.ops[0]) in ex.CMP
                           and norm(x.comparators[0]) == "0" for x in (l, r)) \
                            and norm(l.left) == "curr_node" and norm(r.left) == "can_visit[:,1:].sum(-1)":
                        return neg, "." + ex.CMP[type(l.ops[0])], "." + ex.CMP[type(r.ops[0])]
        return None

    def start_expr():
        # selected = (torch.arange(num_starts, ...).repeat_interleave(td.shape[0]) % num_loc + <c>)
        f = fn("select_start_nodes")
        if f is None:
            return None
        for n in ast.walk(f):
            if isinstance(n, ast.Assign) and len(n.targets) == 1 and norm(n.targets[0]) == "selected":
                v = n.value
                if isinstance(v, ast.BinOp) and isinstance(v.op, ast.Add) and isinstance(v.right, ast.Constant) \
                        and isinstance(v.left, ast.BinOp) and isinstance(v.left.op, ast.Mod):
                    base, mod = norm(v.left.left), norm(v.left.right)
                    if base.startswith("torch.arange(num_starts") and ".repeat_interleave(td.shape[0])" in base:
                        return int(v.right.value), mod
        return None

    def check_free_leg():
        # curr_length = curr_length + dist * ~(td["open_route"].squeeze(-1) & (next_node <op> 0))
        f = fn("check_solution_validity")
        if f is None:
            return None
        hits = []
        for n in ast.walk(f):
            if isinstance(n, ast.UnaryOp) and isinstance(n.op, ast.Invert) and isinstance(n.operand, ast.BinOp) \
                    and isinstance(n.operand.op, ast.BitAnd):
                l, r = n.operand.left, n.operand.right
                if norm(l) == "td['open_route'].squeeze(-1)" and isinstance(r, ast.Compare) and len(r.ops) == 1 \
                        and type(r.ops[0]) in ex.CMP and norm(r.left) == "next_node" and norm(r.comparators[0]) == "0":
                    hits.append("." + ex.CMP[type(r.ops[0])])
        return hits[0] if len(hits) == 1 else None

    def check_clock_div_speed():
        f = fn("check_solution_validity")
        if f is None:
            return None
        hits = []
        for n in ast.walk(f):
            if isinstance(n, ast.Call) and norm(n.func) == "torch.max" and len(n.args) == 2:
                a = n.args[0]
                if isinstance(a, ast.BinOp) and isinstance(a.op, ast.Add) and norm(a.left) == "curr_time":
                    hits.append(norm(a.right))
        if len(hits) != 1:
            return None
        return {"dist/td['speed'].squeeze(-1)": "true", "dist": "false"}.get(hits[0])

    def check_c1_guard():
        # used_cap = used_cap * (actions[:, ii] <op> 0)
        f = fn("check_solution_validity")
        if f is None:
            return None
        hits = []
        for n in ast.walk(f):
            if isinstance(n, ast.BinOp) and isinstance(n.op, ast.Mult) and norm(n.left) == "used_cap" \
                    and isinstance(n.right, ast.Compare) and len(n.right.ops) == 1 and type(n.right.ops[0]) in ex.CMP \
                    and norm(n.right.left) == "actions[:,ii]" and norm(n.right.comparators[0]) == "0":
                hits.append("." + ex.CMP[type(n.right.ops[0])])
        return hits[0] if len(hits) == 1 else None

    p = ex.probe
    p("mtvrpCheckFreeLegCmp", "Cmp", ".eq",
      "mtvrp/env.py:check_solution_validity  `dist * ~(td['open_route'].squeeze(-1) & (next_node == 0))` (per-row flag)", check_free_leg)
    p("mtvrpCheckClockDivSpeed", "Bool", "true",
      "mtvrp/env.py:check_solution_validity  `torch.max(curr_time + dist / td['speed'].squeeze(-1), …)`", check_clock_div_speed)
    p("mtvrpCheckC1GuardCmp", "Cmp", ".ne",
      "mtvrp/env.py:check_solution_validity._check_c1  `used_cap = used_cap * (actions[:, ii] != 0)`", check_c1_guard)
    p("mtvrpStartOffset", "Nat", "1", "mtvrp/env.py:select_start_nodes  `arange(num_starts).repeat_interleave(B) % num_loc + 1`",
      lambda: (lambda r: None if r is None or r[0] < 0 else str(r[0]))(start_expr()))
    p("mtvrpStartModIsNumLoc", "Bool", "true",
      "mtvrp/env.py:select_start_nodes  the modulus is `num_loc` (= number of customers, `locs.shape[-2] - 1`)",
      lambda: (lambda r: None if r is None else ("true" if r[1] == "num_loc" else "false"))(start_expr()))
    p("mtvrpRewardRollShift", "Int", "(-1)", "mtvrp/env.py:_get_reward  `go_to = torch.roll(go_from, -1, dims=1)`", roll_shift)
    p("mtvrpRewardFreeLegIsTo", "Bool", "true",
      "mtvrp/env.py:_get_reward  `distances * ~((go_to == 0) & td['open_route'])`: the END of the leg is tested against the depot",
      free_leg_is_to)
    p("mtvrpStepGuardCmp", "Cmp", ".ne",
      "mtvrp/env.py:_step  `(curr_node[:, None] != 0) * (...)` (clock, route length, both loads reset at the depot)", step_guard)
    p("mtvrpStepClockDivSpeed", "Bool", "true",
      "mtvrp/env.py:_step  `torch.max(td['current_time'] + distance / td['speed'], start_times) + service_time`",
      step_clock_div_speed)
    p("mtvrpDepotRuleNegated", "Bool", "true",
      "mtvrp/env.py:get_action_mask  `can_visit[:, 0] = ~(...)`",
      lambda: (lambda r: None if r is None else ("true" if r[0] else "false"))(depot_rule()))
    p("mtvrpDepotRuleCurCmp", "Cmp", ".eq", "mtvrp/env.py:get_action_mask  depot rule `curr_node == 0`",
      lambda: (lambda r: None if r is None else r[1])(depot_rule()))
    p("mtvrpDepotRuleAnyCmp", "Cmp", ".gt", "mtvrp/env.py:get_action_mask  depot rule `can_visit[:, 1:].sum(-1) > 0`",
      lambda: (lambda r: None if r is None else r[2])(depot_rule()))
