"""AST probes for the CVRP variants (cvrptw / sdvrp / svrp env.py): comparison operators of the masks, the
termination tests and the checkers.  The Lean models `Rl4co/Env/{Cvrptw,Sdvrp,Svrp}.lean` are parametric
in them."""

TW = "rl4co/envs/routing/cvrptw/env.py"
SD = "rl4co/envs/routing/sdvrp/env.py"
SV = "rl4co/envs/routing/svrp/env.py"


def register(ex):
    p, c = ex.probe, ex.cmp_probe
    p("cvrptwMaskTwCmp", "Cmp", ".le",
      "cvrptw/env.py:get_action_mask  `current_time + dist <= time_windows[..., 1]`",
      c(TW, "CVRPTWEnv.get_action_mask", "td['current_time'] + dist", "td['time_windows'][..., 1]"))
    p("cvrptwCheckTwCmp", "Cmp", ".le",
      "cvrptw/env.py:check_solution_validity  `curr_time <= time_windows[next_node][1]`",
      c(TW, "CVRPTWEnv.check_solution_validity", "curr_time",
        "gather_by_index(td['time_windows'], next_node)[..., 1].reshape([batch_size, 1])"))
    p("sdvrpMaskRemCmp", "Cmp", ".eq", "sdvrp/env.py:get_action_mask  `demand_with_depot[..., 1:] == 0`",
      c(SD, "SDVRPEnv.get_action_mask", "td['demand_with_depot'][..., 1:]", "0"))
    p("sdvrpMaskCapCmp", "Cmp", ".ge", "sdvrp/env.py:get_action_mask  `used_capacity >= vehicle_capacity`",
      c(SD, "SDVRPEnv.get_action_mask", "td['used_capacity']", "td['vehicle_capacity']"))
    p("sdvrpDoneCmp", "Cmp", ".gt", "sdvrp/env.py:_step  `~(demand_with_depot > 0).any(-1)`",
      c(SD, "SDVRPEnv._step", "demand_with_depot", "0"))
    p("svrpMaskSkillCmp", "Cmp", ".le", "svrp/env.py:get_action_mask  `skills <= current_tech_skill`",
      c(SV, "SVRPEnv.get_action_mask", "td['skills']", "current_tech_skill.unsqueeze(1).expand_as(td['skills'])"))
    p("svrpDoneCmp", "Cmp", ".eq", "svrp/env.py:_step  `visited.sum(-2) == visited.size(-2)`",
      c(SV, "SVRPEnv._step", "visited.sum(-2)", "visited.size(-2)"))
    p("svrpCheckSkillCmp", "Cmp", ".le",
      "svrp/env.py:check_solution_validity  `skills_ordered[batch, start:each[1]] <= techs[batch, tech]`",
      c(SV, "SVRPEnv.check_solution_validity", "skills_ordered[batch, start:each[1]]", "td['techs'][batch, tech]"))
