"""AST probes for the CVRP variants (cvrptw / sdvrp / svrp env.py): comparison operators of the masks, the
termination tests and the checkers.  The Lean models `Rl4co/Env/{Cvrptw,Sdvrp,Svrp}.lean` are parametric
in them."""

TW = "rl4co/envs/routing/cvrptw/env.py"
SD = "rl4co/envs/routing/sdvrp/env.py"
SV = "rl4co/envs/routing/svrp/env.py"


def register(ex):
    p, c = ex.probe, ex.cmp_probe
    p("cvrptwMaskTwCmp", "Cmp", ".le",
      "cvrptw/env.py:get_action_mask  `current_time + dist <= time_windows[..., 1]`",
      c(TW, "CVRPTWEnv.get_action_mask", "td['current_time'] + dist", "td['time_windows'][..., 1]"))
    p("cvrptwCheckTwCmp", "Cmp", ".le",
      "cvrptw/env.py:check_solution_validity  `curr_time <= time_windows[next_node][1]`",
      c(TW, "CVRPTWEnv.check_solution_validity", "curr_time",
        "gather_by_index(td['time_windows'], next_node)[..., 1].reshape([batch_size, 1])"))
    p("sdvrpMaskRemCmp", "Cmp", ".eq", "sdvrp/env.py:get_action_mask  `demand_with_depot[..., 1:] == 0`",
      c(SD, "SDVRPEnv.get_action_mask", "td['demand_with_depot'][..., 1:]", "0"))
    p("sdvrpMaskCapCmp", "Cmp", ".ge", "sdvrp/env.py:get_action_mask  `used_capacity >= vehicle_capacity`",
      c(SD, "SDVRPEnv.get_action_mask", "td['used_capacity']", "td['vehicle_capacity']"))
    p("sdvrpDoneCmp", "Cmp", ".gt", "sdvrp/env.py:_step  `~(demand_with_depot > 0).any(-1)`",
      c(SD, "SDVRPEnv._step", "demand_with_depot", "0"))
    p("svrpMaskSkillCmp", "Cmp", ".le", "svrp/env.py:get_action_mask  `skills <= current_tech_skill`",
      c(SV, "SVRPEnv.get_action_mask", "td['skills']", "current_tech_skill.unsqueeze(1).expand_as(td['skills'])"))
    p("svrpDoneCmp", "Cmp", ".eq", "svrp/env.py:_step  `visited.sum(-2) == visited.size(-2)`",
      c(SV, "SVRPEnv._step", "visited.sum(-2)", "visited.size(-2)"))
    p("svrpCheckSkillCmp", "Cmp", ".le",
      "svrp/env.py:check_solution_validity  `skills_ordered[batch, start:each[1]] <= techs[batch, tech]`",
      c(SV, "SVRPEnv.check_solution_validity", "skills_ordered[batch, start:each[1]]", "td['techs'][batch, tech]"))


# ---- growth round: shapes, flags and index expressions ---------------------------------------------------
import ast as _ast


def _fn(ex, rel, qual):
    tree = ex.parse(rel)
    return ex.find_function(tree, qual) if tree else None


def _bool(b):
    return "true" if b else "false"


def register_shapes(ex):
    p, c, norm = ex.probe, ex.cmp_probe, ex.norm

    def cvrptw_dur_after_max():
        """`td['current_time'] = (… != 0) * (torch.max(current_time + distance, start_times) + duration)`:
        true iff the duration is added AFTER the max (not inside its first argument)"""
        fn = _fn(ex, TW, "CVRPTWEnv._step")
        if fn is None:
            return None
        for n in _ast.walk(fn):
            if isinstance(n, _ast.Assign) and norm(n.targets[0]) == "td['current_time']" and isinstance(n.value, _ast.BinOp) \
                    and isinstance(n.value.op, _ast.Mult):
                x = n.value.right
                if isinstance(x, _ast.BinOp) and isinstance(x.op, _ast.Add) and isinstance(x.left, _ast.Call) \
                        and norm(x.left.func) == "torch.max" and norm(x.right) == "duration" \
                        and norm(x.left.args[0]) == "td['current_time']+distance" and norm(x.left.args[1]) == "start_times":
                    return "true"
                if isinstance(x, _ast.Call) and norm(x.func) == "torch.max":
                    return "false"
        return None

    def cvrptw_truncates():
        """`torch.max((curr_time + dist).int(), …)` in the checker: is the arrival truncated with `.int()`?"""
        fn = _fn(ex, TW, "CVRPTWEnv.check_solution_validity")
        if fn is None:
            return None
        for n in _ast.walk(fn):
            if isinstance(n, _ast.Assign) and norm(n.targets[0]) == "curr_time" and isinstance(n.value, _ast.Call) \
                    and norm(n.value.func) == "torch.max" and n.value.args:
                a0 = norm(n.value.args[0])
                if a0 == "(curr_time+dist).int()":
                    return "true"
                if a0 == "curr_time+dist":
                    return "false"
        return None

    def cvrptw_row0():
        """the static assertion compares with `td['time_windows'][..., 0, 1][0]` (row 0 of the batch)"""
        fn = _fn(ex, TW, "CVRPTWEnv.check_solution_validity")
        if fn is None:
            return None
        for n in _ast.walk(fn):
            if isinstance(n, _ast.Compare) and norm(n.left) == "td['time_windows'][...,:,0]+distances+td['durations']":
                r = norm(n.comparators[0])
                if r == "td['time_windows'][...,0,1][0]":
                    return "true"
                if r in ("td['time_windows'][...,0,1]", "td['time_windows'][...,0,1][:,None]", "td['time_windows'][...,0:1,1]"):
                    return "false"
        return None

    def sdvrp_deliver():
        """`delivered_demand = torch.min(selected_demand, td['vehicle_capacity'] - td['used_capacity'])`:
        (callee is torch.min, second operand is vehicle_capacity - used_capacity)"""
        fn = _fn(ex, SD, "SDVRPEnv._step")
        if fn is None:
            return None
        for n in _ast.walk(fn):
            if isinstance(n, _ast.Assign) and norm(n.targets[0]) == "delivered_demand" and isinstance(n.value, _ast.Call):
                ok_min = norm(n.value.func) == "torch.min" and len(n.value.args) == 2 and norm(n.value.args[0]) == "selected_demand"
                ok_free = len(n.value.args) == 2 and norm(n.value.args[1]) == "td['vehicle_capacity']-td['used_capacity']"
                return (_bool(ok_min), _bool(ok_free))
        return None

    def svrp_last_offset():
        """`td['current_tech'] == td['techs'].size(-2) - 1`: the constant subtracted from the number of technicians"""
        fn = _fn(ex, SV, "SVRPEnv.get_action_mask")
        if fn is None:
            return None
        for n in _ast.walk(fn):
            if isinstance(n, _ast.Compare) and norm(n.left) == "td['current_tech']":
                r = n.comparators[0]
                if isinstance(r, _ast.BinOp) and isinstance(r.op, _ast.Sub) and norm(r.left) == "td['techs'].size(-2)" \
                        and isinstance(r.right, _ast.Constant) and isinstance(r.right.value, int):
                    return str(r.right.value)
                if norm(r) == "td['techs'].size(-2)":
                    return "0"
        return None

    def svrp_flush():
        """`_get_reward`: is `costs[batch, start:] = self.tech_costs[tech]` executed (a) when the loop moves on to
        the next batch row, (b) after the loop"""
        fn = _fn(ex, SV, "SVRPEnv._get_reward")
        if fn is None:
            return None
        stmt = "costs[batch,start:]=self.tech_costs[tech]"
        loops = [n for n in _ast.walk(fn) if isinstance(n, _ast.For) and norm(n.iter) == "indices"]
        if len(loops) != 1:
            return None
        loop = loops[0]
        on_change = False
        for n in loop.body:
            if isinstance(n, _ast.If) and norm(n.test) == "each[0]>batch":
                on_change = any(norm(b) == stmt for b in n.body)
        body = fn.body
        after = False
        if loop in body:
            after = any(norm(b) == stmt for b in body[body.index(loop) + 1:])
        return (_bool(on_change), _bool(after))

    def part(f, k):
        def run():
            v = f()
            return None if v is None else v[k]
        return run

    p("cvrptwStepDurAfterMax", "Bool", "true",
      "cvrptw/env.py:_step  `max(current_time + distance, tw_start) + duration` (duration added after the max)", cvrptw_dur_after_max)
    p("cvrptwStepDepotCmp", "Cmp", ".ne", "cvrptw/env.py:_step  `(td['action'][:, None] != 0) * (…)`",
      c(TW, "CVRPTWEnv._step", "td['action'][:, None]", "0"))
    p("cvrptwCheckTruncates", "Bool", "true",
      "cvrptw/env.py:check_solution_validity  `(curr_time + dist).int()`", cvrptw_truncates)
    p("cvrptwCheckRow0", "Bool", "true",
      "cvrptw/env.py:check_solution_validity  static assertion reads `time_windows[..., 0, 1][0]` (batch row 0)", cvrptw_row0)
    p("cvrptwCheckStaticCmp", "Cmp", ".le",
      "cvrptw/env.py:check_solution_validity  `tw_start + distances + durations <= depot deadline`",
      c(TW, "CVRPTWEnv.check_solution_validity", "td['time_windows'][..., :, 0] + distances + td['durations']",
        "td['time_windows'][..., 0, 1][0]"))
    p("cvrptwCheckOrderCmp", "Cmp", ".lt", "cvrptw/env.py:check_solution_validity  `tw[..., 0] < tw[..., 1]`",
      c(TW, "CVRPTWEnv.check_solution_validity", "td['time_windows'][..., 0]", "td['time_windows'][..., 1]"))
    p("sdvrpStepDeliverIsMin", "Bool", "true", "sdvrp/env.py:_step  `delivered = torch.min(selected_demand, …)`", part(sdvrp_deliver, 0))
    p("sdvrpStepFreeIsCapMinusUsed", "Bool", "true",
      "sdvrp/env.py:_step  `… vehicle_capacity - used_capacity)` (second operand of the min)", part(sdvrp_deliver, 1))
    p("sdvrpStepDepotCmp", "Cmp", ".ne", "sdvrp/env.py:_step  `used_capacity = (…) * (current_node != 0)`",
      c(SD, "SDVRPEnv._step", "current_node", "0"))
    p("svrpMaskLastCmp", "Cmp", ".eq", "svrp/env.py:get_action_mask  `current_tech == techs.size(-2) - 1`",
      c(SV, "SVRPEnv.get_action_mask", "td['current_tech']", "td['techs'].size(-2) - 1"))
    p("svrpMaskLastOffset", "Nat", "1", "svrp/env.py:get_action_mask  the `1` in `techs.size(-2) - 1`", svrp_last_offset)
    p("svrpStepDepotCmp", "Cmp", ".eq", "svrp/env.py:_step  `current_tech += (current_node == 0)`",
      c(SV, "SVRPEnv._step", "current_node", "0"))
    p("svrpRewardFlushOnRowChange", "Bool", "true",
      "svrp/env.py:_get_reward  `costs[batch, start:] = tech_costs[tech]` inside `if each[0] > batch:`", part(svrp_flush, 0))
    p("svrpRewardFlushAtEnd", "Bool", "true",
      "svrp/env.py:_get_reward  `costs[batch, start:] = tech_costs[tech]` after the loop", part(svrp_flush, 1))


_register_ops = register


def register(ex):  # noqa: F811
    _register_ops(ex)
    register_shapes(ex)
