"""Probes of the improvement family (TSPkoptEnv, PDPRuinRepairEnv): the decision-critical tokens of `_step`
(best-so-far comparison, rec_best selector and its threshold, reward sign), of the PDP move mask, of the
`visited_time` walks, of the loop trip counts of `_local_operator`, of the order / targets of the PDP
re-insertion and of the two checkers.  The Lean definitions executed by the driver (`Rl4co.Improve.Code.*`)
take these values; `Rl4co/Props/C09/ImproveCode.lean` and `Rl4co/Props/C06/Improve.lean` prove by `decide` that
they are the values the theorems need, so a one-token source edit breaks a proof obligation at `lake build`.
Every probe returns None (pattern-miss → committed default, never an alarm) when its statement shape is gone."""
import ast
from fractions import Fraction

TSP = "rl4co/envs/routing/tsp/env.py"
PDP = "rl4co/envs/routing/pdp/env.py"


def register(ex):
    norm, CMP, FLIP = ex.norm, ex.CMP, ex.FLIP

    def fn_of(rel, qual):
        tree = ex.parse(rel)
        return ex.find_function(tree, qual) if tree else None

    def num(node):
        """exact rational of a numeric literal (possibly negated)"""
        if isinstance(node, ast.UnaryOp) and isinstance(node.op, ast.USub):
            v = num(node.operand)
            return None if v is None else -v
        if isinstance(node, ast.Constant) and isinstance(node.value, (int, float)) and not isinstance(node.value, bool):
            return Fraction(str(node.value))
        return None

    # ---- `index = reward > 0.0` ------------------------------------------------------------------------
    def selector(rel, qual, what):
        def run():
            fn = fn_of(rel, qual)
            if fn is None:
                return None
            hits = []
            for n in ast.walk(fn):
                if isinstance(n, ast.Assign) and len(n.targets) == 1 and norm(n.targets[0]) == "index" \
                        and isinstance(n.value, ast.Compare) and len(n.value.ops) == 1 and type(n.value.ops[0]) in CMP:
                    c = n.value
                    if norm(c.left) == "reward" and num(c.comparators[0]) is not None:
                        hits.append((CMP[type(c.ops[0])], num(c.comparators[0])))
                    elif norm(c.comparators[0]) == "reward" and num(c.left) is not None:
                        hits.append((FLIP[CMP[type(c.ops[0])]], num(c.left)))
            if len(hits) != 1:
                return None
            op, thr = hits[0]
            return "." + op if what == "op" else f"({thr.numerator}, {thr.denominator})"
        return run

    # ---- `now_bsf = torch.where(new_obj < cost_bsf, new_obj, cost_bsf)` and `reward = cost_bsf - now_bsf` ----
    def bsf(rel, qual, what):
        def run():
            fn = fn_of(rel, qual)
            if fn is None:
                return None
            for n in ast.walk(fn):
                if isinstance(n, ast.Assign) and len(n.targets) == 1:
                    t = norm(n.targets[0])
                    if what in ("op", "order") and t == "now_bsf" and isinstance(n.value, ast.Call) \
                            and norm(n.value.func) == "torch.where" and len(n.value.args) == 3:
                        c, x, y = n.value.args
                        if not (isinstance(c, ast.Compare) and len(c.ops) == 1 and type(c.ops[0]) in CMP):
                            return None
                        l, r = norm(c.left), norm(c.comparators[0])
                        if (l, r) == ("new_obj", "cost_bsf"):
                            op = CMP[type(c.ops[0])]
                        elif (l, r) == ("cost_bsf", "new_obj"):
                            op = FLIP[CMP[type(c.ops[0])]]
                        else:
                            return None
                        if what == "op":
                            return "." + op
                        a, b = norm(x), norm(y)
                        if (a, b) == ("new_obj", "cost_bsf"):
                            return "true"
                        if (a, b) == ("cost_bsf", "new_obj"):
                            return "false"
                        return None
                    if what == "sign" and t == "reward" and isinstance(n.value, ast.BinOp) and isinstance(n.value.op, ast.Sub):
                        a, b = norm(n.value.left), norm(n.value.right)
                        if (a, b) == ("cost_bsf", "now_bsf"):
                            return "true"
                        if (a, b) == ("now_bsf", "cost_bsf"):
                            return "false"
                        return None
            return None
        return run

    # ---- `for i in range(<name> [- c]): … visited_time[arange, …] = i + s`  →  (s, c) ---------------------
    def range_sub(it):
        if not (isinstance(it, ast.Call) and norm(it.func) == "range" and len(it.args) == 1):
            return None
        a = it.args[0]
        if isinstance(a, ast.BinOp) and isinstance(a.op, ast.Sub) and isinstance(a.right, ast.Constant) \
                and isinstance(a.right.value, int) and not isinstance(a.left, ast.Constant):
            return a.right.value if a.right.value >= 0 else None
        if isinstance(a, (ast.Name, ast.Attribute)):
            return 0
        return None

    def vt_walk(rel, qual):
        def run():
            fn = fn_of(rel, qual)
            if fn is None:
                return None
            hits = []
            for n in ast.walk(fn):
                if isinstance(n, ast.For) and isinstance(n.target, ast.Name):
                    i = n.target.id
                    for st in n.body:
                        if isinstance(st, ast.Assign) and len(st.targets) == 1 and isinstance(st.targets[0], ast.Subscript) \
                                and norm(st.targets[0].value) == "visited_time":
                            v, sub = st.value, range_sub(n.iter)
                            stamp = None
                            if isinstance(v, ast.Name) and v.id == i:
                                stamp = 0
                            elif isinstance(v, ast.BinOp) and isinstance(v.op, ast.Add) and norm(v.left) == i \
                                    and isinstance(v.right, ast.Constant) and isinstance(v.right.value, int) and v.right.value >= 0:
                                stamp = v.right.value
                            if stamp is not None and sub is not None:
                                hits.append((stamp, sub))
            return f"({hits[0][0]}, {hits[0][1]})" if len(hits) == 1 else None
        return run

    # ---- trip counts of the two loops of TSPkoptEnv._local_operator --------------------------------------
    def op_loop(which):
        def run():
            fn = fn_of(TSP, "TSPkoptEnv._local_operator")
            if fn is None:
                return None
            for n in ast.walk(fn):
                if isinstance(n, ast.If) and norm(n.test) == "self.two_opt_mode":
                    part = n.body if which == "two" else n.orelse
                    loops = [m for st in part for m in ast.walk(st) if isinstance(m, ast.For)]
                    if len(loops) != 1:
                        return None
                    sub = range_sub(loops[0].iter)
                    return None if sub is None else str(sub)
            return None
        return run

    # ---- PDP re-insertion: order and targets of the `rec.scatter_(1, idx, src)` statements -----------------
    def pdp_scatter(what):
        def run():
            fn = fn_of(PDP, "PDPRuinRepairEnv._local_operator")
            if fn is None:
                return None
            seq = []
            for st in fn.body:
                if isinstance(st, ast.Expr) and isinstance(st.value, ast.Call) and norm(st.value.func) == "rec.scatter_" \
                        and len(st.value.args) == 3:
                    seq.append((norm(st.value.args[1]), norm(st.value.args[2])))
            idx = [a for a, _ in seq]
            if idx.count("second") != 1 or idx.count("first") != 1:
                return None
            if what == "order":
                return "true" if idx.index("second") < idx.index("first") else "false"
            d = dict(seq)
            deliv, pick = "pair_index+gs//2", "pair_index"
            if d["second"] == deliv and d["first"] == pick:
                return "true"
            if d["second"] == pick and d["first"] == deliv:
                return "false"
            return None
        return run

    def pdp_pair_offset():
        fn = fn_of(PDP, "PDPRuinRepairEnv._local_operator")
        if fn is None:
            return None
        for n in ast.walk(fn):
            if isinstance(n, ast.Assign) and len(n.targets) == 1 and norm(n.targets[0]) == "pair_index":
                v = n.value
                if isinstance(v, ast.BinOp) and isinstance(v.op, ast.Add) and isinstance(v.right, ast.Constant) \
                        and isinstance(v.right.value, int) and v.right.value >= 0 and norm(v.left).startswith("action[:,0]"):
                    return str(v.right.value)
                if norm(v).startswith("action[:,0]"):
                    return "0"
        return None

    # ---- checkers ----------------------------------------------------------------------------------------
    def sorted_cmp(rel, qual):
        def run():
            fn = fn_of(rel, qual)
            if fn is None:
                return None
            hits = []
            for n in ast.walk(fn):
                if isinstance(n, ast.Compare) and len(n.ops) == 1 and type(n.ops[0]) in CMP:
                    l, r = norm(n.left), norm(n.comparators[0])
                    if r == "solution.data.sort(1)[0]" and l.startswith("torch.arange("):
                        hits.append(CMP[type(n.ops[0])])
                    elif l == "solution.data.sort(1)[0]" and r.startswith("torch.arange("):
                        hits.append(FLIP[CMP[type(n.ops[0])]])
            return "." + hits[0] if len(hits) == 1 else None
        return run

    def pdp_prec_cmp():
        fn = fn_of(PDP, "PDPRuinRepairEnv.check_solution_validity")
        if fn is None:
            return None
        hits = []
        for n in ast.walk(fn):
            if isinstance(n, ast.Compare) and len(n.ops) == 1 and type(n.ops[0]) in CMP:
                l, r = norm(n.left), norm(n.comparators[0])
                if (l, r) == ("visited_time[:,1:graph_size//2+1]", "visited_time[:,graph_size//2+1:]"):
                    hits.append(CMP[type(n.ops[0])])
                elif (r, l) == ("visited_time[:,1:graph_size//2+1]", "visited_time[:,graph_size//2+1:]"):
                    hits.append(FLIP[CMP[type(n.ops[0])]])
        return "." + hits[0] if len(hits) == 1 else None

    P = ex.probe
    for tag, rel, cls in (("Kopt", TSP, "TSPkoptEnv"), ("Pdp", PDP, "PDPRuinRepairEnv")):
        f = rel.split("/")[-2] + "/env.py"
        P(f"improve{tag}BsfCmp", "Cmp", ".lt", f"{f}:{cls}._step  `torch.where(new_obj < cost_bsf, …)`", bsf(rel, f"{cls}._step", "op"))
        P(f"improve{tag}BsfWhereNewFirst", "Bool", "true", f"{f}:{cls}._step  `torch.where(cond, new_obj, cost_bsf)` (true = this order)",
          bsf(rel, f"{cls}._step", "order"))
        P(f"improve{tag}RewardOldMinusNew", "Bool", "true", f"{f}:{cls}._step  `reward = cost_bsf - now_bsf`", bsf(rel, f"{cls}._step", "sign"))
        P(f"improve{tag}BestCmp", "Cmp", ".gt", f"{f}:{cls}._step  `index = reward > 0.0` (rows whose rec_best is overwritten)",
          selector(rel, f"{cls}._step", "op"))
        P(f"improve{tag}BestThr", "Int × Nat", "(0, 1)", f"{f}:{cls}._step  the 0.0 of `index = reward > 0.0` as an exact rational",
          selector(rel, f"{cls}._step", "thr"))
        P(f"improve{tag}StepVt", "Nat × Nat", "(1, 0)", f"{f}:{cls}._step  `for i in range(gs): visited_time[…] = i + 1`  (stamp offset, trip-count deficit)",
          vt_walk(rel, f"{cls}._step"))
        P(f"improve{tag}ResetVt", "Nat × Nat", "(1, 0)", f"{f}:{cls}._reset  `for i in range(seq_length): visited_time[…] = i + 1`",
          vt_walk(rel, f"{cls}._reset"))
    P("improveKopt2LoopSub", "Nat", "0", "tsp/env.py:TSPkoptEnv._local_operator  2-opt reverse loop `range(num_loc)`: c of `num_loc - c`", op_loop("two"))
    P("improveKoptKLoopSub", "Nat", "2", "tsp/env.py:TSPkoptEnv._local_operator  k-opt relink loop `range(num_loc - 2)`: the 2", op_loop("k"))
    P("improvePdpMaskCmp", "Cmp", ".gt", "pdp/env.py:PDPRuinRepairEnv.get_mask  `visited_time.view(bs, gs, 1) > visited_time.view(bs, 1, gs)` (masked when true)",
      ex.cmp_probe(PDP, "PDPRuinRepairEnv.get_mask", "visited_time.view(bs, gs, 1)", "visited_time.view(bs, 1, gs)"))
    P("improvePdpDeliveryFirst", "Bool", "true", "pdp/env.py:PDPRuinRepairEnv._local_operator  the scatter at `second` precedes the scatter at `first`", pdp_scatter("order"))
    P("improvePdpSecondGetsDelivery", "Bool", "true", "pdp/env.py:PDPRuinRepairEnv._local_operator  `second → pair_index + gs//2`, `first → pair_index`", pdp_scatter("targets"))
    P("improvePdpPairOffset", "Nat", "1", "pdp/env.py:PDPRuinRepairEnv._local_operator  `pair_index = action[:, 0] + 1`", pdp_pair_offset)
    P("improveKoptCheckCmp", "Cmp", ".eq", "tsp/env.py:TSPkoptEnv.check_solution_validity  `arange == sort(rec_best)`", sorted_cmp(TSP, "TSPkoptEnv.check_solution_validity"))
    P("improvePdpCheckCmp", "Cmp", ".eq", "pdp/env.py:PDPRuinRepairEnv.check_solution_validity  `arange == sort(rec_best)`", sorted_cmp(PDP, "PDPRuinRepairEnv.check_solution_validity"))
    P("improvePdpCheckPrecCmp", "Cmp", ".lt", "pdp/env.py:PDPRuinRepairEnv.check_solution_validity  `visited_time[pickups] < visited_time[deliveries]`", pdp_prec_cmp)
    P("improvePdpCheckVt", "Nat × Nat", "(1, 0)", "pdp/env.py:PDPRuinRepairEnv.check_solution_validity  `for i in range(graph_size): visited_time[…] = i + 1`",
      vt_walk(PDP, "PDPRuinRepairEnv.check_solution_validity"))


# ---- action decoding of the bundled improvement policies ---------------------------------------------------
_register_env = register


def register(ex):  # noqa: F811  (extends the registration above)
    _register_env(ex)
    norm = ex.norm
    DACT = "rl4co/models/zoo/dact/policy.py"
    N2S = "rl4co/models/zoo/n2s/policy.py"

    def fn_of(rel, qual):
        tree = ex.parse(rel)
        return ex.find_function(tree, qual) if tree else None

    def cat_order(rel, qual, target, src):
        """`<target> = torch.cat((…, src // seq_length, src % seq_length), -1)`: true = (//, %) in this order"""
        def run():
            fn = fn_of(rel, qual)
            if fn is None:
                return None
            for n in ast.walk(fn):
                if isinstance(n, ast.Assign) and len(n.targets) == 1 and norm(n.targets[0]) == target \
                        and isinstance(n.value, ast.Call) and norm(n.value.func) == "torch.cat" and n.value.args \
                        and isinstance(n.value.args[0], ast.Tuple):
                    kinds = []
                    for e in n.value.args[0].elts:
                        if isinstance(e, ast.BinOp) and norm(e.left) == src and norm(e.right) == "seq_length":
                            if isinstance(e.op, ast.FloorDiv):
                                kinds.append("div")
                            elif isinstance(e.op, ast.Mod):
                                kinds.append("mod")
                    if kinds == ["div", "mod"]:
                        return "true"
                    if kinds == ["mod", "div"]:
                        return "false"
                    return None
            return None
        return run

    def n2s_mask_offset():
        fn = fn_of(N2S, "N2SPolicy.forward")
        if fn is None:
            return None
        hits = []
        for n in ast.walk(fn):
            if isinstance(n, ast.Call) and norm(n.func) == "env.get_mask" and len(n.args) == 2:
                a = n.args[0]
                if isinstance(a, ast.BinOp) and isinstance(a.op, ast.Add) and norm(a.left) == "action_removal" \
                        and isinstance(a.right, ast.Constant) and isinstance(a.right.value, int) and a.right.value >= 0:
                    hits.append(a.right.value)
                elif norm(a) == "action_removal":
                    hits.append(0)
        return str(hits[0]) if len(hits) == 1 else None

    ex.probe("improveDactDecodeDivFirst", "Bool", "true",
             "dact/policy.py:forward  `DACT_action = cat((action_sampled // seq_length, action_sampled % seq_length))`",
             cat_order(DACT, "DACTPolicy.forward", "DACT_action", "action_sampled"))
    ex.probe("improveN2sDecodeDivFirst", "Bool", "true",
             "n2s/policy.py:forward  `N2S_action = cat((removal, action_reinsertion // seq_length, action_reinsertion % seq_length))`",
             cat_order(N2S, "N2SPolicy.forward", "N2S_action", "action_reinsertion"))
    ex.probe("improveN2sMaskPairOffset", "Nat", "1", "n2s/policy.py:forward  `env.get_mask(action_removal + 1, td)`", n2s_mask_offset)
