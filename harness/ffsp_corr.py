"""FFSP helpers: exact integer instances, a step loop over the REAL `FFSPEnv` that records masks / done /
clock, the request lines of the Lean driver (`drv_ffsp`) and the row-wise comparison.

Instances are dicts {"S","M","J","dur": J x (M*S) ints, "pomo": index of the machine permutation the
row uses (IndexTables: `pomo_idx = row // bs`), "kind"}.  All arithmetic in the real code is int64,
so everything is compared bit for bit.
"""
from __future__ import annotations

import itertools
from typing import Dict, List, Optional

import rl
from leanio import parse_fields
from rl import TensorDict, torch

UNSET = -999999
GEN_LOG: list = []  # (min_time, max_time, S, M, J, run_time) of every "genparam"/"gen" draw, judged by the units
_ENVS: Dict[tuple, object] = {}


def get_env(S: int, M: int, J: int, flatten: bool = True):
    key = (S, M, J, flatten)
    if key not in _ENVS:
        from rl4co.envs.scheduling.ffsp.env import FFSPEnv

        _ENVS[key] = FFSPEnv(generator_params=dict(num_stage=S, num_machine=M, num_job=J, flatten_stages=flatten))
    return _ENVS[key]


def perms(M: int) -> List[tuple]:
    return list(itertools.permutations(range(M)))


KINDS = ["random", "ties", "skewed", "zero", "gen", "fast", "hetero", "genparam", "large"]


def gen_dur(rng, S, M, J, kind, env=None):
    MT = S * M
    if kind == "gen":  # the repo's own generator (torch.randint(min_time, max_time)) with the env's parameters
        torch.manual_seed(rng.randrange(1 << 30))
        rt = env.generator(batch_size=[1])["run_time"][0].tolist()
        GEN_LOG.append((env.generator.min_time, env.generator.max_time, S, M, J, rt))
        return rt
    if kind == "genparam":  # the repo's generator at non-default (min_time, max_time)
        from rl4co.envs.scheduling.ffsp.generator import FFSPGenerator

        lo = rng.choice([0, 1, 2, 5])
        hi = rng.choice([lo + 1, lo + 2, 10 + lo, 40 + lo])
        torch.manual_seed(rng.randrange(1 << 30))
        g = FFSPGenerator(num_stage=S, num_machine=M, num_job=J, min_time=lo, max_time=hi)
        rt = g(batch_size=[1])["run_time"][0].tolist()
        GEN_LOG.append((lo, hi, S, M, J, rt))
        return rt
    if kind == "hetero":  # one very slow machine per stage, the schedule can avoid it: unused entries dominate
        slow = [rng.randrange(M) for _ in range(S)]
        return [[(rng.randint(30, 60) if (m % M) == slow[m // M] else rng.randint(1, 3)) for m in range(MT)]
                for _ in range(J)]
    if kind == "large":  # larger magnitudes (kept moderate: the real loop iterates once per time unit and machine)
        return [[rng.choice([1, 7, 40, 120]) for _ in range(MT)] for _ in range(J)]
    if kind == "ties":
        return [[rng.choice([1, 2]) for _ in range(MT)] for _ in range(J)]
    if kind == "skewed":  # one fast and several very slow machines per stage: waiting pays off
        fast = [rng.randrange(M) for _ in range(S)]
        return [[(rng.randint(1, 2) if (m % M) == fast[m // M] else rng.randint(6, 20)) for m in range(MT)]
                for _ in range(J)]
    if kind == "zero":  # zero durations allowed (hand-supplied data)
        return [[rng.choice([0, 0, 1, 2, 3]) for _ in range(MT)] for _ in range(J)]
    if kind == "huge":  # one machine per stage with durations above the schedule sentinel (outside WF.dur_lt)
        slow = [rng.randrange(M) for _ in range(S)]
        return [[(2_000_000 + rng.randint(0, 5) if (m % M) == slow[m // M] else rng.randint(1, 3)) for m in range(MT)]
                for _ in range(J)]
    if kind == "fast":  # short rows that finish early next to slow batch-mates
        return [[1 for _ in range(MT)] for _ in range(J)]
    return [[rng.randint(1, 9) for _ in range(MT)] for _ in range(J)]


def gen_inst(rng, S, M, J, kind=None, env=None) -> dict:
    kind = kind or rng.choice(KINDS)
    return {"kind": kind, "S": S, "M": M, "J": J, "dur": gen_dur(rng, S, M, J, kind, env), "pomo": 0,
            "flat": bool(getattr(env, "flatten_stages", True)) if env is not None else True}


def wf(inst) -> bool:
    """`Ffsp.WF` of the Lean side: S,M,J >= 1, durations below the schedule sentinel."""
    return inst["S"] >= 1 and inst["M"] >= 1 and inst["J"] >= 1 and all(0 <= d < -UNSET for r in inst["dur"] for d in r)


def work_bound(inst) -> int:
    """D = sum over (job, stage) of the largest duration of the job in that stage (at least 1 each)."""
    S, M = inst["S"], inst["M"]
    return sum(max(1, max(row[k * M:(k + 1) * M])) for row in inst["dur"] for k in range(S))


def step_bound(inst) -> int:
    """`Ffsp.stepBound`: (D + 1) * M * S"""
    return (work_bound(inst) + 1) * inst["M"] * inst["S"]


class StepTimeout(Exception):
    pass


def guarded_step(env, td, secs: float = 8.0):
    """`env.step(td)["next"]` under a watchdog: `_move_to_next_machine` is an unbounded while-loop, a
    defect there must show up as a reported non-termination, not as a hung check."""
    import signal
    import threading

    if threading.current_thread() is not threading.main_thread():
        return env.step(td)["next"]

    def handler(signum, frame):
        raise StepTimeout()

    old = signal.signal(signal.SIGALRM, handler)
    signal.setitimer(signal.ITIMER_REAL, secs)
    try:
        return env.step(td)["next"]
    finally:
        signal.setitimer(signal.ITIMER_REAL, 0)
        signal.signal(signal.SIGALRM, old)


class Ep:
    def __init__(self, R):
        self.actions = [[] for _ in range(R)]
        self.masks = [[] for _ in range(R)]
        self.done = [[] for _ in range(R)]
        self.clock = [[] for _ in range(R)]
        self.gflags: List[int] = []
        self.empty_mask_rows = []
        self.td = None
        self.steps = 0
        self.hung = False
        self.hung_in_step = False
        self.crashed = None  # repr of an exception raised by the real env (reset / pre_step / step)


def to_td(insts: List[dict]):
    rt = torch.tensor([i["dur"] for i in insts], dtype=torch.long)
    return TensorDict({"run_time": rt}, batch_size=[len(insts)])


def run_real(env, insts: List[dict], choose, k: int = 1, forced: Optional[List[List[int]]] = None,
             max_steps: int = 100000) -> Ep:
    """Drive the real env on the batch `insts` (optionally expanded k-fold the way
    `MultiStageFFSPPolicy.pre_forward` does: reset, `batchify(td, k)`, `env.pre_step`) until
    `done.all()`.  Never steps a batch in which every row is finished."""
    from rl4co.utils.ops import batchify

    try:
        td = env.reset(to_td(insts))
        if k > 1:
            td = batchify(td, k)
            td = env.pre_step(td)
    except Exception as e:  # the real env must not raise on a well-formed batch
        ep = Ep(len(insts) * k)
        ep.crashed = f"reset/pre_step: {type(e).__name__}: {e}"
        ep.hung = True
        return ep
    R = td.batch_size[0]
    ep = Ep(R)
    t = 0
    while True:
        mask = td["action_mask"]
        done = td["done"].reshape(R)
        for r in range(R):
            ep.masks[r].append(rl.mask_str(mask[r]))
            ep.done[r].append(int(done[r]))
            ep.clock[r].append(f"{int(td['time_idx'][r])}:{int(td['sub_time_idx'][r])}:{int(td['machine_idx'][r])}"
                               f":{int(td['stage_idx'][r])}:{int(td['stage_machine_idx'][r])}")
        if bool(done.all()):
            break
        if t >= max_steps:
            ep.hung = True
            break
        acts = []
        stop = False
        for r in range(R):
            feas = [j for j, b in enumerate(mask[r].tolist()) if b]
            if not feas:
                ep.empty_mask_rows.append((r, t))
                stop = True
                acts.append(0)
                continue
            if forced is not None and t < len(forced[r]):
                acts.append(forced[r][t])
            else:
                acts.append(choose(r, t, feas))
        if stop:
            break
        for r in range(R):
            ep.actions[r].append(acts[r])
        td.set("action", torch.tensor(acts, dtype=torch.long))
        try:
            td = guarded_step(env, td)
        except StepTimeout:
            ep.hung = True
            ep.hung_in_step = True
            break
        except Exception as e:
            ep.hung = True
            ep.crashed = f"step {t}: {type(e).__name__}: {e}"
            break
        ep.gflags.append(int(bool(td["done"].all())))
        t += 1
    ep.steps = t
    ep.td = td
    return ep


def chooser(rng, wait_bias: float, J: int):
    def ch(r, t, feas):
        if J in feas and rng.random() < wait_bias:
            return J
        return rng.choice(feas)

    return ch


def inst_sections(inst) -> str:
    S, M, J = inst["S"], inst["M"], inst["J"]
    dur = " ".join(str(d) for row in inst["dur"] for d in row)
    perm = " ".join(map(str, perms(M)[inst.get("pomo", 0)]))
    return f"{S} {M} {J} {int(bool(inst.get('flat', True)))} | {dur} | {perm}"


def episode_line(inst, actions, gflags) -> str:
    return (f"ffsp.episode {inst_sections(inst)} | " + " ".join(map(str, actions)) + " | "
            + " ".join(map(str, gflags)))


def real_sched(td, r) -> List[int]:
    return [int(v) for v in td["schedule"][r].flatten().tolist()]


def real_reward(td, r) -> Optional[int]:
    v = float(td["reward"][r])
    if v == float("-inf"):
        return None
    assert v == int(v)
    return int(v)


def compare_row(ctx, inst, ep: Ep, r: int, reply: str, what: str, observables=("mask", "done", "clock", "sched", "reward")):
    """model (Lean) vs real code for one row: masks / done / clock in every state, final schedule and
    written reward.  Only the listed observables are compared."""
    f = parse_fields(reply)
    if "masks" not in f:
        ctx.disagreement(f"ffsp: driver error ({what})", {"reply": reply, "inst": inst, "actions": ep.actions[r]})
        return f
    det = {"inst": inst, "actions": ep.actions[r], "gflags": ep.gflags, "row": r}
    if "mask" in observables:
        mm = f["masks"].split(",")
        if mm != ep.masks[r]:
            k = next((k for k in range(min(len(mm), len(ep.masks[r]))) if mm[k] != ep.masks[r][k]), -1)
            ctx.disagreement(f"ffsp: mask differs ({what})", dict(det, step=k, real=ep.masks[r][k] if k >= 0 else ep.masks[r],
                                                                  model=mm[k] if k >= 0 else mm))
        if f.get("adm") != "1":
            ctx.disagreement(f"ffsp: model mask does not admit an action the real mask offered ({what})", det)
    if "done" in observables:
        if [int(c) for c in f["done"]] != ep.done[r]:
            ctx.disagreement(f"ffsp: done differs ({what})", dict(det, real=ep.done[r], model=f["done"]))
    if "clock" in observables:
        if f["clock"].split(",") != ep.clock[r]:
            ctx.disagreement(f"ffsp: clock (time:sub:machine:stage:stage_machine) differs ({what})",
                             dict(det, real=ep.clock[r], model=f["clock"]))
        if f.get("fuelok") != "1":
            ctx.disagreement(f"ffsp: model ran out of fuel in moveLoop ({what})", det)
    if "sched" in observables:
        ms = [int(x) for x in f["sched"].split(",")]
        if ms != real_sched(ep.td, r):
            ctx.disagreement(f"ffsp: final schedule differs ({what})", dict(det, real=real_sched(ep.td, r), model=ms))
    if "reward" in observables:
        rr = real_reward(ep.td, r)
        mr = None if f["reward"] == "none" else int(f["reward"])
        if rr != mr:
            ctx.disagreement(f"ffsp: written reward differs ({what})", dict(det, real=rr, model=mr))
    return f


def judge_schedule(ctx, inst, ep: Ep, r: int, f: dict, line: str):
    """Lean Spec oracle on the real final schedule (the model's schedule was compared with it)."""
    J, S = inst["J"], inst["S"]
    wit = {"inst": inst, "actions": ep.actions[r], "schedule": real_sched(ep.td, r), "lean_line": line}
    if f.get("valid") != "1":
        ctx.violation("ffsp:invalid-schedule", "final schedule of a mask-confined episode is not a valid schedule (Lean Spec)", wit)
    if f.get("nops") is not None and int(f["nops"]) != J * S:
        ctx.violation("ffsp:op-count", f"schedule holds {f['nops']} operations, expected {J * S}", wit)
    for j in range(J):
        if ep.actions[r].count(j) != S:
            ctx.violation("ffsp:job-action-count", f"job {j} was chosen {ep.actions[r].count(j)} times, expected {S}", wit)


def judge_reward(ctx, inst, ep: Ep, r: int, f: dict, line: str):
    rr = real_reward(ep.td, r)
    if rr is None:
        ctx.violation("ffsp:reward-not-written", "episode finished but the reward is still -inf",
                      {"inst": inst, "actions": ep.actions[r]})
    elif "mk" in f and -int(f["mk"]) != rr:
        key = "ffsp:reward-ne-makespan" + ("" if wf(inst) else ":sentinel")
        ctx.violation(key, "reward of the real env differs from minus the Spec makespan of its schedule"
                      + ("" if wf(inst) else " (a duration ≥ 999999 on an unused machine beats the 'unset' sentinel)"),
                      {"inst": inst, "actions": ep.actions[r], "real_reward": rr, "spec_makespan": int(f["mk"]),
                       "schedule": real_sched(ep.td, r), "lean_line": line})


def judge_generator(ctx):
    """every generator draw seen so far: `run_time` in [min_time, max_time), right shape, Lean-side WF"""
    while GEN_LOG:
        lo, hi, S, M, J, rt = GEN_LOG.pop()
        ctx.count(f"ffsp.gen[min={lo},max={hi}]")
        ok_shape = len(rt) == J and all(len(r) == S * M for r in rt)
        vals = [d for r in rt for d in r]
        if not ok_shape or any(not (lo <= d < hi) for d in vals):
            ctx.violation("ffsp:generator-range", "FFSPGenerator: run_time outside [min_time, max_time) or wrong shape",
                          {"min_time": lo, "max_time": hi, "shape": (S, M, J), "run_time": rt})
        if hi <= -UNSET and not wf({"S": S, "M": M, "J": J, "dur": rt}):
            ctx.violation("ffsp:generator-not-wf", "generated instance is not well-formed", {"run_time": rt})


def check_tables(ctx, env, B: int, k: int):
    """`IndexTables` of the env after a reset with batch size B (rows of a k-fold replicated batch): the
    permutation table and `get_machine_index` / `get_stage_machine_index` vs the Lean model (`permsOf`,
    `Tables.perm`, `pomoIdx`) and vs itertools."""
    M, S = env.num_machine, env.num_stage
    tb = env.tables
    rows = list(range(B * k))
    rep = parse_fields(ctx.driver.ask(f"ffsp.tables {M} {B} | " + " ".join(map(str, rows))))
    lean_perms = [tuple(int(x) for x in p.split(",")) for p in rep["perms"].split(";")]
    if lean_perms != perms(M):
        ctx.disagreement("ffsp: permsOf differs from itertools.permutations", {"M": M, "lean": lean_perms})
    real_tbl = [tuple(r[:M]) for r in tb.machine_table.tolist()]
    if real_tbl != perms(M) or tb.bs != B:
        ctx.disagreement("ffsp: IndexTables.machine_table / bs differ from the model", {"M": M, "B": B, "bs": tb.bs,
                                                                                      "real": real_tbl})
    lean_rows = [(int(x.split(":")[0]), tuple(int(v) for v in x.split(":")[1].split(","))) for x in rep["rows"].split(";")]
    idx = torch.tensor(rows, dtype=torch.long)
    for sub in range(M * S):
        st = torch.full((len(rows),), sub, dtype=torch.long)
        mi = tb.get_machine_index(idx, st).tolist()
        smi = tb.get_stage_machine_index(idx, st).tolist()
        for r in rows:
            pomo, prm = lean_rows[r]
            want = prm[sub % M] + M * (sub // M)
            want_s = want if env.flatten_stages else prm[sub % M]
            if mi[r] != want or smi[r] != want_s or pomo != r // B:
                ctx.disagreement("ffsp: get_machine_index / get_stage_machine_index differ from the model",
                                 {"M": M, "S": S, "B": B, "row": r, "sub": sub, "real": (mi[r], smi[r]),
                                  "model": (want, want_s), "pomo_model": pomo, "flat": env.flatten_stages})
                return
    ctx.count("ffsp.tables-checked")


# ---- exhaustive exploration of the real env (C05) --------------------------------------------------
def real_bfs(env, inst, max_states: int = 6000):
    """All complete mask-confined solo episodes of the real env on `inst` (frontier expanded as one
    batch per level).  Returns list of (actions, schedule(real-job columns), reward)."""
    J, S, M = inst["J"], inst["S"], inst["M"]
    MT = S * M
    assert inst.get("pomo", 0) == 0
    frontier = [[]]
    finals = []
    total = 0
    depth = 0
    while frontier:
        total += len(frontier)
        depth += 1
        if total > max_states:
            raise RuntimeError("more than %d states" % max_states)
        if depth > step_bound(inst) + 2:
            raise RuntimeError("an episode is longer than the step bound %d" % step_bound(inst))
        # replay every prefix from reset, one prefix per *separate* solo env call would be slow: rows are
        # independent as long as not all rows are finished, so we add a sentinel row that never finishes
        # first ... simpler and safe: drive each prefix solo.
        nxt = []
        for pre in frontier:
            td = env.reset(to_td([inst]))
            for a in pre:
                td.set("action", torch.tensor([a], dtype=torch.long))
                td = guarded_step(env, td)
            if bool(td["done"].all()):
                sch = [int(td["schedule"][0, m, j]) for m in range(MT) for j in range(J)]
                finals.append((pre, sch, real_reward(td, 0)))
                continue
            feas = [j for j, b in enumerate(td["action_mask"][0].tolist()) if b]
            for a in feas:
                nxt.append(pre + [a])
        frontier = nxt
    return finals
