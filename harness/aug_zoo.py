"""The bundled constructive policies × the environments they support, at tiny sizes with random weights,
for the C14 batch-invariance correspondence (harness/units/aug.py).  Everything is built offline; a
combination that cannot be built or decoded here is reported as `unavailable` (never as a violation).
"""
from __future__ import annotations

from typing import Callable, Dict, List, Tuple

from rl import torch  # noqa: F401  (sets threads / logging)

TINY = dict(embed_dim=16, num_heads=2, num_encoder_layers=1, feedforward_hidden=32)

# environment name → generator parameters of a tiny instance family
ENV_PARAMS: Dict[str, dict] = {
    "tsp": dict(num_loc=6),
    "cvrp": dict(num_loc=6),
    "sdvrp": dict(num_loc=6),
    "cvrptw": dict(num_loc=6),
    "svrp": dict(num_loc=6),
    "op": dict(num_loc=6),
    "pctsp": dict(num_loc=6),
    "spctsp": dict(num_loc=6),
    "pdp": dict(num_loc=6),
    "mtsp": dict(num_loc=6, min_num_agents=2, max_num_agents=2),
    "mdcpdp": dict(num_loc=6, num_agents=2),
    "mtvrp": dict(num_loc=6, variant_preset="all"),
    "smtwtp": dict(num_job=5),
    "atsp": dict(num_loc=5),
    "ffsp": dict(num_stage=2, num_machine=2, num_job=4),
    "fjsp": dict(num_jobs=3, num_machines=3, min_ops_per_job=1, max_ops_per_job=3),
    "jssp": dict(num_jobs=3, num_machines=3),
}


# Per-instance parameters must DIFFER between the rows of a batch (a policy / env that reads such a parameter from
# row 0, or from the env object instead of the row, is invisible otherwise).  Each entry lists generator settings
# whose batches have identical tensor shapes; a pool is the concatenation of a few rows of each, shuffled.
ENV_VARIANTS: Dict[str, List[dict]] = {
    "op": [dict(max_length=1.2), dict(max_length=2.0), dict(max_length=3.5)],
    "cvrp": [dict(capacity=10), dict(capacity=20), dict(capacity=40)],
    "sdvrp": [dict(capacity=10), dict(capacity=20), dict(capacity=40)],
    "cvrptw": [dict(capacity=10, max_time=480), dict(capacity=20, max_time=600), dict(capacity=40, max_time=700)],  # max_time >= default: smaller horizons leave customers unreachable
    "pctsp": [dict(penalty_factor=3.0), dict(penalty_factor=1.0), dict(penalty_factor=6.0)],
    "spctsp": [dict(penalty_factor=3.0), dict(penalty_factor=1.0), dict(penalty_factor=6.0)],
    "svrp": [dict(tech_costs=[1, 2, 3]), dict(tech_costs=[2, 3, 5]), dict(tech_costs=[1, 1, 4], min_skill=2.0, max_skill=6.0)],
    "mdcpdp": [dict(min_capacity=1, max_capacity=1, min_lateness_weight=0.2, max_lateness_weight=0.2),
               dict(min_capacity=3, max_capacity=3, min_lateness_weight=1.0, max_lateness_weight=1.0),
               dict(min_capacity=2, max_capacity=5, min_lateness_weight=0.5, max_lateness_weight=0.9)],
    "mtvrp": [dict(variant_preset="all", capacity=30, speed=1.0, distance_limit=3.0, max_time=4.6),
              dict(variant_preset="all", capacity=15, speed=2.0, distance_limit=2.0, max_time=3.0),
              dict(variant_preset="cvrp"), dict(variant_preset="ovrptw"), dict(variant_preset="vrpbl")],
    "mtsp": [dict(min_num_agents=1, max_num_agents=1), dict(min_num_agents=2, max_num_agents=2),
             dict(min_num_agents=3, max_num_agents=3)],
}


def _tweak_vehicle_capacity(env, td):
    """`vehicle_capacity` is written by `_reset` from the env's generator (one value for the whole batch) but read per
    row by mask / step / context: give every row its own (>= 1, so every customer still fits)."""
    vals = torch.tensor([1.0, 1.25, 1.5, 2.0, 1.75])
    B = td.batch_size[0]
    td.set("vehicle_capacity", vals[torch.arange(B) % len(vals)].reshape(B, 1).to(td["vehicle_capacity"].dtype))
    return td


def _tweak_prize_required(env, td):
    vals = torch.tensor([1.0, 0.6, 0.3, 0.8])
    B = td.batch_size[0]
    td.set("prize_required", vals[torch.arange(B) % len(vals)].reshape(td["prize_required"].shape).to(td["prize_required"].dtype))
    return td


POOL_TWEAKS = {"mtvrp": _tweak_vehicle_capacity, "cvrp": _tweak_vehicle_capacity, "sdvrp": _tweak_vehicle_capacity, "cvrptw": _tweak_vehicle_capacity,
               "pctsp": _tweak_prize_required, "spctsp": _tweak_prize_required}

# keys whose per-row values are reported in the input distribution when they differ inside a pool
PARAM_KEYS = ["max_length", "vehicle_capacity", "capacity", "capacity_original", "prize_required", "cur_total_penalty",
              "num_agents", "lateness_weight", "speed", "distance_limit", "open_route", "techs", "end_op_per_job",
              "time_windows", "backhaul_class"]


def make_pool(name: str, env, rng, rows: int = 9, env_factory=None):
    """reset TensorDict of `rows` instances whose per-instance parameters differ, + the variant group of every row"""
    from rl4co.envs import get_env

    variants = ENV_VARIANTS.get(name)
    if not variants or env_factory is not None:
        td = env.generator(batch_size=[rows])
        groups = [0] * rows
    else:
        per = -(-rows // len(variants))
        tds, groups = [], []
        for g, v in enumerate(variants):
            e = get_env(name, generator_params={**ENV_PARAMS[name], **v})
            tds.append(e.generator(batch_size=[per]))
            groups += [g] * per
        td = torch.cat(tds, 0)
        order = list(range(len(groups)))
        rng.shuffle(order)
        order = order[:rows]
        # row 0 (the instance under test) comes from the FIRST variant (smallest parameters), row 1 (the second instance under
        # test) from the LAST one (largest): a batch-global max / min / first-row shortcut shows for at least one of them
        g_of = [groups[k] for k in order]
        lo = next((j for j, g in enumerate(g_of) if g == 0), 0)
        order[0], order[lo] = order[lo], order[0]
        g_of = [groups[k] for k in order]
        hi = next((j for j, g in enumerate(g_of) if g == len(variants) - 1 and j != 0), 1)
        order[1], order[hi] = order[hi], order[1]
        td, groups = td[order], [groups[k] for k in order]
    td = env.reset(td)
    tw = POOL_TWEAKS.get(name)
    if tw is not None:
        td = tw(env, td)
        try:
            td.set("action_mask", env.get_action_mask(td))
        except Exception:
            pass
        groups = list(range(rows))  # every row has its own value now
    differing = []
    for k in PARAM_KEYS:
        if k in td.keys():
            flat = td[k].reshape(rows, -1).float()
            if not bool((flat == flat[0]).all()):
                differing.append(k)
    return td, groups, differing


def make_env(name: str):
    from rl4co.envs import get_env

    kw = {"generator_params": ENV_PARAMS[name]}
    if name in ("cvrp", "sdvrp", "cvrptw"):
        # rows get their own `vehicle_capacity` (see POOL_TWEAKS); the envs' solution checkers compare `used_cap [B]`
        # with `vehicle_capacity [B,1]` (a B x B broadcast that is only right while all rows share one capacity), so
        # the built-in checker is switched off for these hand-edited batches
        kw["check_solution"] = False
    return get_env(name, **kw)


def _am(env_name, **kw):
    from rl4co.models.zoo.am import AttentionModelPolicy

    return AttentionModelPolicy(env_name=env_name, **{**TINY, **kw})


def _pomo(env_name):
    # the policy POMO builds by default (instance norm, no graph context)
    return _am(env_name, normalization="instance", use_graph_context=False)


def _am_norm(norm):
    return lambda env_name: _am(env_name, normalization=norm)


def _symnco(env_name):
    from rl4co.models.zoo.symnco import SymNCOPolicy

    return SymNCOPolicy(env_name=env_name, **TINY)


def _ham(env_name):
    from rl4co.models.zoo.ham import HeterogeneousAttentionModelPolicy

    return HeterogeneousAttentionModelPolicy(env_name=env_name, **TINY)


def _mdam(env_name):
    from rl4co.models.zoo.mdam import MDAMPolicy

    return MDAMPolicy(env_name=env_name, embed_dim=16, num_heads=2, num_encoder_layers=1)


def _polynet(env_name):
    from rl4co.models.zoo.polynet.policy import PolyNetPolicy

    return PolyNetPolicy(env_name=env_name, k=3, **TINY)


def _ptrnet(env_name):
    from rl4co.models.zoo.ptrnet import PointerNetworkPolicy

    return PointerNetworkPolicy(env_name=env_name, embed_dim=16, hidden_dim=16)


def _matnet(env_name):
    from rl4co.models.zoo.matnet import MatNetPolicy

    return MatNetPolicy(env_name=env_name, embed_dim=16, num_heads=2, num_encoder_layers=1)


def _mvmoe(env_name):
    moe = {"encoder": {"hidden_act": "ReLU", "num_experts": 4, "k": 2, "noisy_gating": True},
           "decoder": {"light_version": False, "num_experts": 4, "k": 2, "noisy_gating": True}}
    # (MVMoE_AM's own default additionally passes "out_bias": False, with which MoE() raises a TypeError at construction)
    return _am(env_name, moe_kwargs=moe)


def _mvmoe_pomo(env_name):
    moe = {"encoder": {"hidden_act": "ReLU", "num_experts": 4, "k": 2, "noisy_gating": True},
           "decoder": {"light_version": True, "num_experts": 4, "k": 2, "noisy_gating": True}}
    return _am(env_name, normalization="instance", use_graph_context=False, moe_kwargs=moe)


def _l2d(env_name):
    from rl4co.models.zoo.l2d import L2DPolicy

    return L2DPolicy(env_name=env_name, embed_dim=16, num_encoder_layers=1)


def _l2d_attn(env_name):
    from rl4co.models.zoo.l2d import L2DAttnPolicy

    return L2DAttnPolicy(env_name=env_name, embed_dim=16, num_heads=2, num_encoder_layers=1)


def _nargnn(env_name):
    from rl4co.models.zoo.nargnn import NARGNNPolicy

    return NARGNNPolicy(env_name=env_name, embed_dim=16, num_layers_heatmap_generator=2, num_layers_graph_encoder=2)


def _nar(env_name):
    """NonAutoregressivePolicy + its bundled NonAutoregressiveDecoder with a deterministic hand-written heatmap encoder (the
    bundled GNN encoders need torch_geometric): a small MLP over the pairwise features (dx, dy, dist) of the coordinates"""
    import torch.nn as nn

    from rl4co.models.common.constructive.nonautoregressive import NonAutoregressiveEncoder, NonAutoregressivePolicy

    class PairwiseHeatmapEncoder(NonAutoregressiveEncoder):
        def __init__(self):
            super().__init__()
            self.mlp = nn.Sequential(nn.Linear(3, 8), nn.Tanh(), nn.Linear(8, 1))

        def forward(self, td):
            locs = td["locs"]
            diff = locs[:, :, None, :] - locs[:, None, :, :]
            feats = torch.cat([diff, diff.norm(dim=-1, keepdim=True)], -1)
            heat = self.mlp(feats).squeeze(-1) * 4.0
            heat = heat - 100.0 * torch.eye(locs.size(1))
            return heat, None

    return NonAutoregressivePolicy(encoder=PairwiseHeatmapEncoder(), env_name=env_name)


AM_ENVS = ["tsp", "cvrp", "sdvrp", "cvrptw", "svrp", "op", "pctsp", "spctsp", "pdp", "mtsp", "mdcpdp", "mtvrp", "smtwtp"]

# (policy name, builder, environments, also test multistart_greedy)
ZOO: List[Tuple[str, Callable, List[str], bool]] = [
    ("am", _am, AM_ENVS, True),
    ("am-instnorm-nographctx(pomo)", _pomo, ["tsp", "cvrp", "sdvrp", "op", "pctsp", "mtvrp"], True),
    ("am-layernorm", _am_norm("layer"), ["tsp", "cvrp"], False),
    ("symnco", _symnco, ["tsp", "cvrp", "op", "pctsp"], True),
    ("ham", _ham, ["pdp"], False),
    ("mdam", _mdam, ["tsp", "cvrp", "sdvrp", "op", "pctsp"], False),
    ("polynet", _polynet, ["tsp", "cvrp"], False),
    ("ptrnet", _ptrnet, ["tsp"], False),
    ("matnet", _matnet, ["atsp", "ffsp"], False),
    ("mvmoe-am", _mvmoe, ["mtvrp", "cvrp"], False),
    ("mvmoe-pomo", _mvmoe_pomo, ["mtvrp"], False),
    ("l2d", _l2d, ["fjsp", "jssp"], False),
    ("l2d-attn", _l2d_attn, ["fjsp", "jssp"], False),
    ("nargnn", _nargnn, ["tsp"], False),
    ("nar-heatmap", _nar, ["tsp"], True),
]
