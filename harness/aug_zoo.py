"""The bundled constructive policies × the environments they support, at tiny sizes with random weights,
for the C14 batch-invariance correspondence (harness/units/aug.py).  Everything is built offline; a
combination that cannot be built or decoded here is reported as `unavailable` (never as a violation).
"""
from __future__ import annotations

from typing import Callable, Dict, List, Tuple

from rl import torch  # noqa: F401  (sets threads / logging)

TINY = dict(embed_dim=16, num_heads=2, num_encoder_layers=1, feedforward_hidden=32)

# environment name → generator parameters of a tiny instance family
ENV_PARAMS: Dict[str, dict] = {
    "tsp": dict(num_loc=6),
    "cvrp": dict(num_loc=6),
    "sdvrp": dict(num_loc=6),
    "cvrptw": dict(num_loc=6),
    "svrp": dict(num_loc=6),
    "op": dict(num_loc=6),
    "pctsp": dict(num_loc=6),
    "spctsp": dict(num_loc=6),
    "pdp": dict(num_loc=6),
    "mtsp": dict(num_loc=6, min_num_agents=2, max_num_agents=2),
    "mdcpdp": dict(num_loc=6, num_agents=2),
    "mtvrp": dict(num_loc=6, variant_preset="all"),
    "smtwtp": dict(num_job=5),
    "atsp": dict(num_loc=5),
    "ffsp": dict(num_stage=2, num_machine=2, num_job=4),
    "fjsp": dict(num_jobs=3, num_machines=3, min_ops_per_job=1, max_ops_per_job=2),
    "jssp": dict(num_jobs=3, num_machines=3),
}


def make_env(name: str):
    from rl4co.envs import get_env

    kw = {}
    if name in ("ffsp",):
        kw["generator_params"] = ENV_PARAMS[name]
    else:
        kw["generator_params"] = ENV_PARAMS[name]
    return get_env(name, **kw)


def _am(env_name, **kw):
    from rl4co.models.zoo.am import AttentionModelPolicy

    return AttentionModelPolicy(env_name=env_name, **{**TINY, **kw})


def _pomo(env_name):
    # the policy POMO builds by default (instance norm, no graph context)
    return _am(env_name, normalization="instance", use_graph_context=False)


def _am_norm(norm):
    return lambda env_name: _am(env_name, normalization=norm)


def _symnco(env_name):
    from rl4co.models.zoo.symnco import SymNCOPolicy

    return SymNCOPolicy(env_name=env_name, **TINY)


def _ham(env_name):
    from rl4co.models.zoo.ham import HeterogeneousAttentionModelPolicy

    return HeterogeneousAttentionModelPolicy(env_name=env_name, **TINY)


def _mdam(env_name):
    from rl4co.models.zoo.mdam import MDAMPolicy

    return MDAMPolicy(env_name=env_name, embed_dim=16, num_heads=2, num_encoder_layers=1)


def _polynet(env_name):
    from rl4co.models.zoo.polynet.policy import PolyNetPolicy

    return PolyNetPolicy(env_name=env_name, k=3, **TINY)


def _ptrnet(env_name):
    from rl4co.models.zoo.ptrnet import PointerNetworkPolicy

    return PointerNetworkPolicy(env_name=env_name, embed_dim=16, hidden_dim=16)


def _matnet(env_name):
    from rl4co.models.zoo.matnet import MatNetPolicy

    return MatNetPolicy(env_name=env_name, embed_dim=16, num_heads=2, num_encoder_layers=1)


def _mvmoe(env_name):
    moe = {"encoder": {"hidden_act": "ReLU", "num_experts": 4, "k": 2, "noisy_gating": True},
           "decoder": {"light_version": False, "num_experts": 4, "k": 2, "noisy_gating": True}}
    # (MVMoE_AM's own default additionally passes "out_bias": False, with which MoE() raises a TypeError at construction)
    return _am(env_name, moe_kwargs=moe)


def _mvmoe_pomo(env_name):
    moe = {"encoder": {"hidden_act": "ReLU", "num_experts": 4, "k": 2, "noisy_gating": True},
           "decoder": {"light_version": True, "num_experts": 4, "k": 2, "noisy_gating": True}}
    return _am(env_name, normalization="instance", use_graph_context=False, moe_kwargs=moe)


def _l2d(env_name):
    from rl4co.models.zoo.l2d import L2DPolicy

    return L2DPolicy(env_name=env_name, embed_dim=16, num_encoder_layers=1)


def _l2d_attn(env_name):
    from rl4co.models.zoo.l2d import L2DAttnPolicy

    return L2DAttnPolicy(env_name=env_name, embed_dim=16, num_heads=2, num_encoder_layers=1)


def _nargnn(env_name):
    from rl4co.models.zoo.nargnn import NARGNNPolicy

    return NARGNNPolicy(env_name=env_name, embed_dim=16, num_layers_heatmap_generator=2, num_layers_graph_encoder=2)


AM_ENVS = ["tsp", "cvrp", "sdvrp", "cvrptw", "svrp", "op", "pctsp", "spctsp", "pdp", "mtsp", "mdcpdp", "mtvrp", "smtwtp"]

# (policy name, builder, environments, also test multistart_greedy)
ZOO: List[Tuple[str, Callable, List[str], bool]] = [
    ("am", _am, AM_ENVS, True),
    ("am-instnorm-nographctx(pomo)", _pomo, ["tsp", "cvrp", "sdvrp", "op", "pctsp", "mtvrp"], True),
    ("am-layernorm", _am_norm("layer"), ["tsp", "cvrp"], False),
    ("symnco", _symnco, ["tsp", "cvrp", "op", "pctsp"], True),
    ("ham", _ham, ["pdp"], False),
    ("mdam", _mdam, ["tsp", "cvrp", "sdvrp", "op", "pctsp"], False),
    ("polynet", _polynet, ["tsp", "cvrp"], False),
    ("ptrnet", _ptrnet, ["tsp"], False),
    ("matnet", _matnet, ["atsp", "ffsp"], False),
    ("mvmoe-am", _mvmoe, ["mtvrp", "cvrp"], False),
    ("mvmoe-pomo", _mvmoe_pomo, ["mtvrp"], False),
    ("l2d", _l2d, ["fjsp", "jssp"], False),
    ("l2d-attn", _l2d_attn, ["fjsp", "jssp"], False),
    ("nargnn", _nargnn, ["tsp"], False),
]
