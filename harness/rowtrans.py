"""Row-level translator: batched tensor code of an environment  →  per-instance Lean definitions.

`get_action_mask` and `_step` of an environment are written over `[B, …]` tensors, but every operation
in them acts row by row (that is what property C04 says).  This module translates the statements of such
a function, operator by operator, into a Lean function of ONE row: a `[B]`/`[B,1]` tensor becomes a
scalar, a `[B,n]` tensor a `List`, with element kinds

    I  quantity in ticks (Int)      Z  integer index arithmetic (Int)     N  index / count (Nat)     B  Bool

and writes `lean/Rl4co/Generated/<Env>Row.lean` on every run (called from `extract.generate`).
`Rl4co/Props/C01/CvrpGenerated.lean` proves that the generated functions ARE the hand-written model
(`Rl4co.Cvrp.mask/step/done`) under the list representation of its state, and lifts C01/C02 to the
generated environment — so the theorems are re-checked against what `get_action_mask` / `_step` say now.

Translated language (anything else → `Untranslatable` → frozen default kept, `pattern-miss`, no alarm):
    td['key'] (declared) | name | int literal | e[:, None] | e[..., None] | e[..., 1:] | e.to(..) | e.float() | e.int()
    e1 (+|-|*) e2 | e1 (>|>=|<|<=|==|!=) e2 | e1 (&||) e2 | ~e | e.sum(-1) | e.size(-1)
    torch.clamp(e, lo, hi) | gather_by_index(v, idx, squeeze=False) | v.scatter(-1, idx, 1) | torch.cat((s, v), -1)
Statements: `name = e`; `td.update({...})` names the outputs; `return e`.
"""
from __future__ import annotations

import ast
import json
import os
from typing import Callable, Dict, List, Optional, Tuple

import extract
from pytrans import Untranslatable

GEN_DIR = os.path.dirname(extract.OUT)
DEFAULTS_FILE = os.path.join(os.path.dirname(os.path.abspath(__file__)), "rowtrans_defaults.json")

Kind = Tuple[str, str]  # (shape S|V, elem I|Z|N|B)
LEAN_ELEM = {"I": "Int", "Z": "Int", "N": "Nat", "B": "Bool"}
CMP = {ast.Gt: ">", ast.GtE: "≥", ast.Lt: "<", ast.LtE: "≤", ast.Eq: "=", ast.NotEq: "≠"}
ARITH = {ast.Add: "+", ast.Sub: "-", ast.Mult: "*"}


def lean_ty(k: Kind) -> str:
    return LEAN_ELEM[k[1]] if k[0] == "S" else f"List {LEAN_ELEM[k[1]]}"


class RowTr:
    def __init__(self, td_keys: Dict[str, Tuple[str, Kind]], env: Optional[Dict[str, Tuple[str, Kind]]] = None):
        self.td = dict(td_keys)  # td['key'] -> (lean name, kind)
        self.env = dict(env or {})
        self.lets: List[Tuple[str, str]] = []
        self.fresh = 0
        self.expanded: Dict[str, str] = {}  # let-bound name -> its definition with earlier names expanded

    def var(self) -> str:
        self.fresh += 1
        return f"x{self.fresh}"

    def expand(self, text: str) -> str:
        """`text` with let-bound names replaced by their definitions and bound-variable numbers dropped:
        only used as a SORT KEY, so that naming an intermediate value does not change the operand order"""
        import re as _re
        for _ in range(6):
            new = _re.sub(r"[A-Za-z_][A-Za-z_0-9]*", lambda m: self.expanded.get(m.group(0), m.group(0)), text)
            if new == text:
                break
            text = new
        return _re.sub(r"\bx\d+\b", "x", text)

    # ---- helpers ----------------------------------------------------------------------------
    def lift2(self, fn: Callable[[str, str], str], l: Tuple[str, Kind], r: Tuple[str, Kind]) -> Tuple[str, str]:
        """apply a scalar binary term builder with broadcasting; returns (term, shape)"""
        (lt, (ls, _)), (rt, (rs, _)) = l, r
        if ls == "S" and rs == "S":
            return fn(lt, rt), "S"
        if ls == "V" and rs == "S":
            x = self.var()
            return f"(List.map (fun {x} => {fn(x, rt)}) {lt})", "V"
        if ls == "S" and rs == "V":
            x = self.var()
            return f"(List.map (fun {x} => {fn(lt, x)}) {rt})", "V"
        return f"(List.zipWith (fun a b => {fn('a', 'b')}) {lt} {rt})", "V"

    def canon(self, l, r):
        """canonical operand order for a commutative operator (vectors first, then by expanded Lean text), so
        that a commuted source expression — or one whose operand was given a name — regenerates the same term"""
        key = lambda o: (0 if o[1][0] == "V" else 1, 1 if o[1][1] == "C" else 0, self.expand(o[0]))
        return (l, r) if key(l) <= key(r) else (r, l)

    @staticmethod
    def to_int(t: str, e: str) -> str:
        return f"(({t} : Nat) : Int)" if e == "N" else t

    # ---- expressions ------------------------------------------------------------------------
    def expr(self, n: ast.AST) -> Tuple[str, Kind]:
        if isinstance(n, ast.Subscript) and isinstance(n.value, ast.Name) and n.value.id == "td" \
                and isinstance(n.slice, ast.Constant):
            key = n.slice.value
            if key not in self.td:
                raise Untranslatable(f"td[{key!r}] not declared")
            return self.td[key]
        if isinstance(n, ast.Name):
            if n.id not in self.env:
                raise Untranslatable(f"unknown name {n.id}")
            return self.env[n.id]
        if isinstance(n, ast.Constant) and isinstance(n.value, int) and not isinstance(n.value, bool):
            return str(n.value), ("S", "C")  # literal, resolved by its partner
        if isinstance(n, ast.Subscript):
            t, k = self.expr(n.value)
            sl = extract.norm(n.slice)
            if sl in ("(slice(None,None,None),None)", "(Ellipsis,None)", ":,None", "...,None", "(:,None)", "(...,None)") and k[0] == "S":
                return t, k
            if sl in ("(Ellipsis,slice(1,None,None))", "...,1:", "(...,1:)") and k[0] == "V":
                return f"(List.drop 1 {t})", k
            raise Untranslatable(f"subscript {sl}")
        if isinstance(n, ast.UnaryOp) and isinstance(n.op, ast.Invert):
            t, k = self.expr(n.operand)
            if k[1] != "B":
                raise Untranslatable("~ on non-bool")
            if k[0] == "S":
                return f"(!{t})", k
            x = self.var()
            return f"(List.map (fun {x} => !{x}) {t})", k
        if isinstance(n, ast.BinOp) and type(n.op) in (ast.BitAnd, ast.BitOr):
            op = "&&" if isinstance(n.op, ast.BitAnd) else "||"
            l, r = self.canon(self.expr(n.left), self.expr(n.right))
            if l[1][1] != "B" or r[1][1] != "B":
                raise Untranslatable("&/| on non-bool")
            t, sh = self.lift2(lambda a, b: f"({a} {op} {b})", l, r)
            return t, (sh, "B")
        if isinstance(n, ast.BinOp) and type(n.op) in ARITH:
            return self.arith(ARITH[type(n.op)], self.expr(n.left), self.expr(n.right))
        if isinstance(n, ast.Compare) and len(n.ops) == 1 and type(n.ops[0]) in CMP:
            return self.compare(CMP[type(n.ops[0])], self.expr(n.left), self.expr(n.comparators[0]))
        if isinstance(n, ast.Call):
            return self.call(n)
        raise Untranslatable(ast.unparse(n))

    def arith(self, op: str, l, r) -> Tuple[str, Kind]:
        if op in "+*":
            l, r = self.canon(l, r)
        (lt, (ls, le)), (rt, (rs, re_)) = l, r
        # numeric view of a Bool factor: x * b.float()  ↦  if b then x else 0
        if op == "*" and re_ == "B" and le in "IZ":
            t, sh = self.lift2(lambda a, b: f"(if {b} then {a} else 0)", l, r)
            return t, (sh, le)
        if op == "*" and le == "B" and re_ in "IZ":
            t, sh = self.lift2(lambda a, b: f"(if {a} then {b} else 0)", l, r)
            return t, (sh, re_)
        if le == "C" and re_ == "C":
            raise Untranslatable("literal ∘ literal")
        # index arithmetic: Nat − literal leaves ℕ, so it is done in Int (Python ints)
        if {le, re_} <= {"N", "C", "Z"}:
            if op == "+" and "Z" not in (le, re_):
                t, sh = self.lift2(lambda a, b: f"({a} + {b})", l, r)
                return t, (sh, "N")
            lt2 = (self.to_int(lt, le), (ls, "Z"))
            rt2 = (self.to_int(rt, re_), (rs, "Z"))
            t, sh = self.lift2(lambda a, b: f"({a} {op} {b})", lt2, rt2)
            return t, (sh, "Z")
        if le in "IC" and re_ in "IC":
            t, sh = self.lift2(lambda a, b: f"({a} {op} {b})", l, r)
            return t, (sh, "I")
        raise Untranslatable(f"arith {le}{op}{re_}")

    def compare(self, op: str, l, r) -> Tuple[str, Kind]:
        if op in ("<", "≤"):  # a < b  is emitted as  b > a
            op, l, r = {"<": ">", "≤": "≥"}[op], r, l
        elif op in ("=", "≠"):
            l, r = self.canon(l, r)
        (lt, (ls, le)), (rt, (rs, re_)) = l, r
        if le == "B" and re_ == "C" and rt == "0" and op == "=":  # `mask == 0` on a Bool tensor
            if ls == "S":
                return f"(!{lt})", ("S", "B")
            x = self.var()
            return f"(List.map (fun {x} => !{x}) {lt})", ("V", "B")
        num = {"I", "C"}, {"N", "C"}, {"Z", "C"}, {"N", "Z", "C"}
        if not any({le, re_} <= s for s in num) or (le == "C" and re_ == "C"):
            raise Untranslatable(f"compare {le}{op}{re_}")
        if "Z" in (le, re_):
            l, r = (self.to_int(lt, le), (ls, "Z")), (self.to_int(rt, re_), (rs, "Z"))
        t, sh = self.lift2(lambda a, b: f"(decide ({a} {op} {b}))", l, r)
        return t, (sh, "B")

    def call(self, n: ast.Call) -> Tuple[str, Kind]:
        f = n.func
        fkey = extract.norm(f)
        kws = {kw.arg: extract.norm(kw.value) for kw in n.keywords}
        if fkey == "torch.clamp" and len(n.args) == 3 and not kws:
            (t, k), (lo, lok), (hi, hik) = (self.expr(a) for a in n.args)
            if k[0] == "S" and k[1] in "ZN" and lok[1] in "CZN" and hik[1] in "CZN":
                return f"(max {self.to_int(lo, lok[1])} (min {self.to_int(t, k[1])} {self.to_int(hi, hik[1])}))", ("S", "Z")
        if fkey == "gather_by_index" and len(n.args) == 2 and kws in ({"squeeze": "False"}, {}):
            (v, vk), (i, ik) = self.expr(n.args[0]), self.expr(n.args[1])
            if vk[0] == "V" and ik[0] == "S" and ik[1] in "ZN" and vk[1] in "IB":
                idx = f"(Int.toNat {i})" if ik[1] == "Z" else i
                dflt = "0" if vk[1] == "I" else "false"
                return f"(List.getD {v} {idx} {dflt})", ("S", vk[1])
        if fkey == "torch.cat" and len(n.args) == 2 and isinstance(n.args[0], ast.Tuple) and len(n.args[0].elts) == 2 \
                and extract.norm(n.args[1]) == "-1":
            (a, ak), (b, bk) = self.expr(n.args[0].elts[0]), self.expr(n.args[0].elts[1])
            if ak[0] == "S" and bk[0] == "V" and ak[1] == bk[1]:
                return f"({a} :: {b})", bk
        if isinstance(f, ast.Attribute):
            m = f.attr
            t, k = self.expr(f.value)
            if m in ("to", "float", "int", "long", "bool", "clone"):
                return t, k
            if m == "sum" and [extract.norm(a) for a in n.args] == ["-1"] and not kws and k[0] == "V":
                if k[1] == "B":
                    return f"(List.count true {t})", ("S", "N")
                if k[1] == "I":
                    return f"(List.sum {t})", ("S", "I")
            if m == "size" and [extract.norm(a) for a in n.args] == ["-1"] and k[0] == "V":
                return f"(List.length {t})", ("S", "N")
            if m == "scatter" and len(n.args) == 3 and extract.norm(n.args[0]) == "-1" and extract.norm(n.args[2]) == "1" \
                    and k == ("V", "B"):
                i, ik = self.expr(n.args[1])
                if ik == ("S", "N"):
                    return f"(List.set {t} {i} true)", k
        raise Untranslatable(ast.unparse(n))

    # ---- statements -------------------------------------------------------------------------
    def assign(self, s: ast.Assign):
        if len(s.targets) != 1 or not isinstance(s.targets[0], ast.Name):
            raise Untranslatable(ast.unparse(s))
        t, k = self.expr(s.value)
        if k[1] == "C":
            raise Untranslatable("bare literal")
        name = s.targets[0].id
        self.expanded[name] = self.expand(t)
        self.lets.append((name, t))
        self.env[name] = (name, k)


def _func(rel: str, qual: str) -> ast.FunctionDef:
    tree = extract.parse(rel)
    fn = extract.find_function(tree, qual) if tree is not None else None
    if fn is None:
        raise Untranslatable(f"{rel}:{qual} not found")
    return fn


def emit(name: str, doc: str, params: List[Tuple[str, Kind]], lets, outs: List[Tuple[str, Kind]]) -> str:
    ps = " ".join(f"({p} : {lean_ty(k)})" for p, k in params)
    rty = " × ".join(lean_ty(k) for _, k in outs)
    body = "".join(f"  let {n} := {t}\n" for n, t in lets)
    ret = outs[0][0] if len(outs) == 1 else "(" + ", ".join(o for o, _ in outs) + ")"
    return f"/-- {doc} -/\ndef {name} {ps} : {rty} :=\n{body}  {ret}\n"


# ---- CVRP -----------------------------------------------------------------------------------
CVRP = "rl4co/envs/routing/cvrp/env.py"
CVRP_TD = {
    "demand": ("demand", ("V", "I")),
    "used_capacity": ("used_capacity", ("S", "I")),
    "vehicle_capacity": ("vehicle_capacity", ("S", "I")),
    "visited": ("visited", ("V", "B")),
    "current_node": ("current_node", ("S", "N")),
    "action": ("action", ("S", "N")),
}


def t_cvrp_mask() -> str:
    fn = _func(CVRP, "CVRPEnv.get_action_mask")
    tr = RowTr(CVRP_TD)
    ret = None
    for s in fn.body:
        if isinstance(s, ast.Expr) and isinstance(s.value, ast.Constant):
            continue
        if isinstance(s, ast.Assign):
            tr.assign(s)
        elif isinstance(s, ast.Return):
            ret = tr.expr(s.value)
        else:
            raise Untranslatable(ast.unparse(s))
    if ret is None or ret[1] != ("V", "B"):
        raise Untranslatable("get_action_mask return")
    tr.lets.append(("action_mask", ret[0]))
    params = [(CVRP_TD[k][0], CVRP_TD[k][1]) for k in ("demand", "used_capacity", "vehicle_capacity", "visited", "current_node")]
    return emit("cvrpMaskRow", "cvrp/env.py:CVRPEnv.get_action_mask for one row (True = feasible), statement by statement",
                params, tr.lets, [("action_mask", ("V", "B"))])


def t_cvrp_step() -> str:
    fn = _func(CVRP, "CVRPEnv._step")
    tr = RowTr(CVRP_TD)
    outs_map = None
    for s in fn.body:
        if isinstance(s, ast.Expr) and isinstance(s.value, ast.Constant):
            continue
        if isinstance(s, ast.Assign):
            if extract.norm(s.targets[0]) == "reward":
                continue  # per-step reward is a placeholder (zeros); the episode reward is `_get_reward`
            tr.assign(s)
        elif isinstance(s, ast.Expr) and isinstance(s.value, ast.Call) and extract.norm(s.value.func) == "td.update" \
                and len(s.value.args) == 1 and isinstance(s.value.args[0], ast.Dict):
            d = s.value.args[0]
            outs_map = {k.value: extract.norm(v) for k, v in zip(d.keys, d.values)}
        elif isinstance(s, ast.Expr) and isinstance(s.value, ast.Call) and extract.norm(s.value.func) == "td.set" \
                and extract.norm(s.value.args[0]) == "'action_mask'" and extract.norm(s.value.args[1]) == "self.get_action_mask(td)":
            continue  # the mask of the new state is the (translated) mask function of the updated row
        elif isinstance(s, ast.Return) and extract.norm(s.value) == "td":
            continue
        else:
            raise Untranslatable(ast.unparse(s))
    want = ["current_node", "used_capacity", "visited", "done"]
    if outs_map is None or any(outs_map.get(k) != k for k in want):
        raise Untranslatable(f"td.update keys {outs_map}")
    outs = [(k, tr.env[k][1]) for k in want]
    expect = {"current_node": ("S", "N"), "used_capacity": ("S", "I"), "visited": ("V", "B"), "done": ("S", "B")}
    if any(dict(outs)[k] != expect[k] for k in want):
        raise Untranslatable(f"_step kinds {outs}")
    params = [(CVRP_TD[k][0], CVRP_TD[k][1]) for k in ("demand", "used_capacity", "visited", "action")]
    return emit("cvrpStepRow", "cvrp/env.py:CVRPEnv._step for one row, statement by statement → (current_node, used_capacity, visited, done)",
                params, tr.lets, outs)


FILES = {
    "CvrpRow.lean": ("Rl4co.GenRow", [("cvrpMaskRow", t_cvrp_mask), ("cvrpStepRow", t_cvrp_step)]),
}

HEADER = """-- GENERATED by harness/rowtrans.py from /repo's current sources. Do not edit by hand.
-- Batched tensor code translated into functions of ONE row; bridging lemmas: Rl4co/Props/C01/CvrpGenerated.lean.
namespace {ns}
set_option linter.unusedVariables false

"""

_frozen: Optional[Dict[str, str]] = None


def _defaults() -> Dict[str, str]:
    global _frozen
    if _frozen is None:
        try:
            _frozen = json.load(open(DEFAULTS_FILE))
        except Exception:
            _frozen = {}
    return _frozen


def freeze():
    out = {}
    for _, (_, targets) in FILES.items():
        for name, fn in targets:
            out[name] = fn()
    with open(DEFAULTS_FILE, "w") as f:
        json.dump(out, f, indent=1, sort_keys=True)
    return out


def generate(write: bool = True) -> Dict[str, dict]:
    report: Dict[str, dict] = {}
    for fname, (ns, targets) in FILES.items():
        path = os.path.join(GEN_DIR, fname)
        parts = [HEADER.format(ns=ns)]
        for name, fn in targets:
            try:
                text, status, why = fn(), "extracted", None
            except Untranslatable as e:
                text, status, why = None, "pattern-miss", str(e)
            except Exception as e:  # never break the run
                text, status, why = None, "pattern-miss", f"{type(e).__name__}: {e}"
            default = _defaults().get(name)
            if text is None:
                text = default
                if text is None:
                    continue
            report["row_" + name] = {"value": "<lean term>", "status": status, "default": "<frozen term>",
                                     "changed": default is not None and default.strip() != text.strip(),
                                     **({"why": why} if why else {})}
            parts.append(text + "\n")
        parts.append(f"end {ns}\n")
        new = "".join(parts)
        old = open(path).read() if os.path.exists(path) else None
        if write and new != old:
            with open(path, "w") as f:
                f.write(new)
    return report


if __name__ == "__main__":
    import sys
    if "--freeze" in sys.argv:
        print("frozen:", sorted(freeze()))
        sys.exit(0)
    rep = generate(write="--write" in sys.argv)
    json.dump(rep, sys.stdout, indent=1)
    print()
