#!/bin/bash
# Coordinator helper: independently confirm a red-team seed and install it under /verif/seeded/.
#   confirm_seed.sh <Cxx> <k>     reads /tmp/seed_<Cxx>/{patch<k>.diff,demo<k>.py,meta<k>.json}
# Confirms in a fresh scratch worktree of /repo: patch applies; demo exits 0 on the clean tree and
# non-zero with the patch; the pinned test-suite still passes with the patch (the 117 stable tests).
P="$1"; K="$2"; SRC="/tmp/seed_$P"; WT="/tmp/cf_${P}_$K"; OUT="/verif/seeded/${P}-$K"
LOG="/tmp/coord/confirm_${P}_$K.log"
exec > "$LOG" 2>&1
set -x
git -C /repo worktree remove --force "$WT" 2>/dev/null
git -C /repo worktree add -q --detach "$WT" HEAD || exit 2
cd "$WT" || exit 2
RL4CO_SRC="$WT" PYTHONPATH="$WT" timeout 900 /venv/bin/python "$SRC/demo$K.py" > /tmp/coord/demo_${P}_${K}_clean.out 2>&1; RC_CLEAN=$?
git apply "$SRC/patch$K.diff" || { echo "PATCH FAILED"; git -C /repo worktree remove --force "$WT"; exit 3; }
RL4CO_SRC="$WT" PYTHONPATH="$WT" timeout 900 /venv/bin/python "$SRC/demo$K.py" > /tmp/coord/demo_${P}_${K}_mut.out 2>&1; RC_MUT=$?
OMP_NUM_THREADS=4 MKL_NUM_THREADS=4 PYTHONPATH="$WT" timeout 6000 /venv/bin/python -m pytest -q -p no:cacheprovider --timeout=3600 --continue-on-collection-errors --junitxml=/tmp/coord/junit_${P}_$K.xml > /tmp/coord/pytest_${P}_$K.out 2>&1
NPASS=$(python3 - <<EOF
import json, xml.etree.ElementTree as ET
stable = set(json.load(open('/root/.vp/BASELINE.json'))['stable_pass'])
ok = set()
for tc in ET.parse('/tmp/coord/junit_${P}_$K.xml').getroot().iter('testcase'):
    name = tc.get('classname') + '::' + tc.get('name')
    if not any(c.tag in ('failure', 'error', 'skipped') for c in tc):
        ok.add(name)
print(len(stable & ok), len(stable))
EOF
)
cd /; git -C /repo worktree remove --force "$WT"
set +x
echo "RESULT $P-$K demo_clean_rc=$RC_CLEAN demo_mut_rc=$RC_MUT stable_tests_passing=$NPASS"
if [ "$RC_CLEAN" = "0" ] && [ "$RC_MUT" != "0" ] && [ "$NPASS" = "117 117" ]; then
  mkdir -p "$OUT"
  cp "$SRC/patch$K.diff" "$OUT/patch.diff"; cp "$SRC/demo$K.py" "$OUT/demo.py"
  python3 - <<EOF
import json
m = json.load(open('$SRC/meta$K.json'))
m['confirmed_by_coordinator'] = {
  'worktree': 'fresh detached worktree of /repo HEAD (removed afterwards)',
  'demo_clean_exit': $RC_CLEAN, 'demo_with_patch_exit': $RC_MUT,
  'test_suite': 'full pinned suite (BASELINE.json cmd) with the patch applied: 117/117 stable tests pass',
}
json.dump(m, open('$OUT/meta.json', 'w'), indent=1)
EOF
  echo "INSTALLED $OUT"
else
  echo "NOT CONFIRMED"
fi
