"""Translator half of the model↔code tie: regenerate `lean/Rl4co/Generated/Params.lean` from the
Python AST of /repo's *current* sources on every run.

Each probe looks, inside one named function, for one statement shape (by operand text, not by line
number) and extracts a decision-critical token: the comparison operator of a mask / checker /
termination test, a numeric constant, a table.  The Lean models take these as parameters, so a source
edit that flips one of them changes the model the theorems are checked against, and the theorem that
needed the old value stops compiling (→ failing-input search, see DESIGN §4.1).

A probe that does not find its pattern (harmless rewrite, moved code) reports `pattern-miss`; the
committed default is used and the behavioural correspondence alone carries the tie.  A miss is never
an alarm.
"""
from __future__ import annotations

import ast
import json
import os
import sys
from fractions import Fraction
from typing import Any, Callable, Dict, List, Optional, Tuple

HERE = os.path.dirname(os.path.abspath(__file__))
VERIF = os.path.dirname(HERE)
REPO = os.environ.get("RL4CO_REPO", "/repo")
OUT = os.path.join(os.environ.get("VERIF_LEAN_DIR") or os.path.join(VERIF, "lean"), "Rl4co", "Generated", "Params.lean")

CMP = {ast.Lt: "lt", ast.LtE: "le", ast.Gt: "gt", ast.GtE: "ge", ast.Eq: "eq", ast.NotEq: "ne"}
FLIP = {"lt": "gt", "le": "ge", "gt": "lt", "ge": "le", "eq": "eq", "ne": "ne"}


def norm(node: ast.AST) -> str:
    return ast.unparse(node).replace('"', "'").replace(" ", "")


def find_function(tree: ast.AST, qual: str) -> Optional[ast.AST]:
    parts = qual.split(".")
    cur: List[ast.AST] = [tree]
    for p in parts:
        nxt = []
        for c in cur:
            for n in ast.walk(c):
                if isinstance(n, (ast.FunctionDef, ast.ClassDef)) and n.name == p:
                    nxt.append(n)
        if not nxt:
            return None
        cur = nxt[:1]
    return cur[0]


_cache: Dict[str, ast.AST] = {}


def parse(rel: str) -> Optional[ast.AST]:
    if rel not in _cache:
        p = os.path.join(REPO, rel)
        try:
            _cache[rel] = ast.parse(open(p).read())
        except Exception:
            _cache[rel] = None
    return _cache[rel]


def cmp_probe(rel: str, func: str, left: str, right: str) -> Callable[[], Optional[str]]:
    """operator of the (single) comparison `left <op> right` inside `func` (operands matched textually,
    either order; when the operands are swapped the operator is mirrored)."""
    L, R = left.replace(" ", "").replace('"', "'"), right.replace(" ", "").replace('"', "'")

    def run():
        tree = parse(rel)
        fn = find_function(tree, func) if tree else None
        if fn is None:
            return None
        hits = []
        for n in ast.walk(fn):
            if isinstance(n, ast.Compare) and len(n.ops) == 1 and type(n.ops[0]) in CMP:
                l, r = norm(n.left), norm(n.comparators[0])
                if l == L and r == R:
                    hits.append(CMP[type(n.ops[0])])
                elif l == R and r == L:
                    hits.append(FLIP[CMP[type(n.ops[0])]])
        return "." + hits[0] if len(hits) == 1 else None

    return run


def const_in_compare_probe(rel: str, func: str, left: str, right_prefix: str) -> Callable[[], Optional[str]]:
    """numeric literal c in a comparison `left <op> right_prefix + c` → exact rational "num/den" """
    L, RP = left.replace(" ", ""), right_prefix.replace(" ", "").replace('"', "'")

    def run():
        tree = parse(rel)
        fn = find_function(tree, func) if tree else None
        if fn is None:
            return None
        for n in ast.walk(fn):
            if isinstance(n, ast.Compare) and len(n.ops) == 1 and norm(n.left) == L:
                r = n.comparators[0]
                if isinstance(r, ast.BinOp) and isinstance(r.op, ast.Add) and norm(r.left) == RP and isinstance(r.right, ast.Constant):
                    fr = Fraction(str(r.right.value))
                    return f"({fr.numerator}, {fr.denominator})"
        return None

    return run


# name, Lean type, default (value at the pinned commit), doc, probe
PROBES: List[Tuple[str, str, str, str, Callable[[], Optional[str]]]] = []


def probe(name: str, ty: str, default: str, doc: str, fn: Callable[[], Optional[str]]):
    PROBES.append((name, ty, default, doc, fn))


CV = "rl4co/envs/routing/cvrp/env.py"
probe("cvrpMaskCapCmp", "Cmp", ".gt", "cvrp/env.py:get_action_mask  `demand + used_capacity > vehicle_capacity`",
      cmp_probe(CV, "CVRPEnv.get_action_mask", "td['demand'] + td['used_capacity']", "td['vehicle_capacity']"))
probe("cvrpCheckCapCmp", "Cmp", ".le", "cvrp/env.py:check_solution_validity  `used_cap <= vehicle_capacity + 1e-5`",
      cmp_probe(CV, "CVRPEnv.check_solution_validity", "used_cap", "td['vehicle_capacity'] + 1e-05"))
probe("cvrpDoneCmp", "Cmp", ".eq", "cvrp/env.py:_step  `visited.sum(-1) == visited.size(-1)`",
      cmp_probe(CV, "CVRPEnv._step", "visited.sum(-1)", "visited.size(-1)"))


probe("cvrpDepotCurCmp", "Cmp", ".eq", "cvrp/env.py:get_action_mask  depot rule `td['current_node'] == 0`",
      cmp_probe(CV, "CVRPEnv.get_action_mask", "td['current_node']", "0"))
probe("cvrpDepotAnyCmp", "Cmp", ".gt", "cvrp/env.py:get_action_mask  depot rule `(mask_loc == 0).int().sum(-1) > 0`",
      cmp_probe(CV, "CVRPEnv.get_action_mask", "(mask_loc == 0).int().sum(-1)", "0"))
probe("cvrpStepDepotCmp", "Cmp", ".ne", "cvrp/env.py:_step  load reset factor `(current_node != 0)`",
      cmp_probe(CV, "CVRPEnv._step", "current_node", "0"))
probe("cvrpCheckClampCmp", "Cmp", ".lt", "cvrp/env.py:check_solution_validity  clamp `used_cap[used_cap < 0] = 0`",
      cmp_probe(CV, "CVRPEnv.check_solution_validity", "used_cap", "0"))
probe("cvrpCheckTol", "Nat × Nat", "(1, 100000)", "cvrp/env.py:check_solution_validity  tolerance in `used_cap <= vehicle_capacity + 1e-5` (num, den)",
      const_in_compare_probe(CV, "CVRPEnv.check_solution_validity", "used_cap", "td['vehicle_capacity']"))


def load_extra_probes():
    """families may register further probes in harness/probes/*.py (each defines `register(probe, cmp_probe, ...)`)"""
    pdir = os.path.join(HERE, "probes")
    if not os.path.isdir(pdir):
        return
    import importlib.util

    for fn in sorted(os.listdir(pdir)):
        if fn.endswith(".py") and not fn.startswith("_"):
            spec = importlib.util.spec_from_file_location(f"probes_{fn[:-3]}", os.path.join(pdir, fn))
            mod = importlib.util.module_from_spec(spec)
            spec.loader.exec_module(mod)
            mod.register(sys.modules[__name__])


_loaded = False


def generate(write: bool = True) -> Dict[str, Any]:
    global _loaded
    if not _loaded:
        load_extra_probes()
        _loaded = True
    lines = [
        "-- GENERATED by harness/extract.py from /repo's current sources. Do not edit by hand.",
        "import Rl4co.Core.Cmp",
        "namespace Rl4co.Params",
        "",
    ]
    report = {}
    for name, ty, default, doc, fn in PROBES:
        try:
            v = fn()
        except Exception as e:  # a probe must never break the run
            v = None
        status = "extracted" if v is not None else "pattern-miss"
        val = v if v is not None else default
        report[name] = {"value": val, "status": status, "default": default, "changed": val != default}
        lines.append(f"/-- {doc} -/")
        lines.append(f"def {name} : {ty} := {val}")
    lines += ["", "end Rl4co.Params", ""]
    text = "\n".join(lines)
    old = open(OUT).read() if os.path.exists(OUT) else None
    if old != text and write:
        with open(OUT, "w") as f:
            f.write(text)
    # expression-level translation of straight-line numeric code → Generated/Numeric.lean
    try:
        import pytrans

        report.update(pytrans.generate(write=write))
    except Exception:  # the translator must never break the run
        pass
    # row-level translation of environment code (get_action_mask / _step) → Generated/<Env>Row.lean
    try:
        import rowtrans

        report.update(rowtrans.generate(write=write))
    except Exception:
        pass
    return report


if __name__ == "__main__":
    rep = generate()
    json.dump(rep, sys.stdout, indent=1)
    print()
