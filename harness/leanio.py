"""Lean side of the harness: building the lake project, talking to the model driver, auditing the
axioms of property theorems, and the hygiene grep."""
from __future__ import annotations

import fcntl
import os
import re
import subprocess
import time
from typing import Dict, Iterable, List, Tuple

from common import ALLOWED_AXIOMS, LEAN_DIR

LOCK = os.path.join(LEAN_DIR, ".build.lock")
BIN_DIR = os.path.join(LEAN_DIR, ".lake", "build", "bin")

FORBIDDEN = re.compile(
    r"\bsorry\b|\badmit\b|^\s*axiom\s|\bnative_decide\b|\bbv_decide\b|implemented_by|\bunsafe\s|maxHeartbeats\s+0\b"
)


class _Lock:
    def __enter__(self):
        self.f = open(LOCK, "w")
        fcntl.flock(self.f, fcntl.LOCK_EX)
        return self

    def __exit__(self, *a):
        fcntl.flock(self.f, fcntl.LOCK_UN)
        self.f.close()


def lake_build(targets: Iterable[str], timeout: int = 1500) -> Tuple[bool, str]:
    """`lake build <targets>` serialised with a file lock.  Returns (ok, output)."""
    targets = list(targets)
    with _Lock():
        p = subprocess.run(
            ["lake", "build", *targets],
            cwd=LEAN_DIR,
            stdout=subprocess.PIPE,
            stderr=subprocess.STDOUT,
            text=True,
            timeout=timeout,
        )
    return p.returncode == 0, p.stdout


def build_each(modules: List[str]) -> Dict[str, Tuple[bool, str]]:
    """Build all modules at once; if that fails, build one by one to localise the failure."""
    ok, out = lake_build(modules)
    if ok:
        return {m: (True, "") for m in modules}
    res = {}
    for m in modules:
        res[m] = lake_build([m])
    return res


def strip_comments(src: str) -> str:
    # block comments (possibly nested once) and line comments
    out = []
    i, depth = 0, 0
    while i < len(src):
        if src.startswith("/-", i):
            depth += 1
            i += 2
        elif src.startswith("-/", i) and depth > 0:
            depth -= 1
            i += 2
        elif depth > 0:
            if src[i] == "\n":
                out.append("\n")
            i += 1
        elif src.startswith("--", i):
            j = src.find("\n", i)
            i = len(src) if j < 0 else j
        else:
            out.append(src[i])
            i += 1
    return "".join(out)


def hygiene() -> List[str]:
    """Forbidden tokens outside comments anywhere in the Lean project (not under .lake)."""
    hits = []
    for root, dirs, files in os.walk(LEAN_DIR):
        dirs[:] = [d for d in dirs if d != ".lake"]
        for fn in files:
            if not fn.endswith(".lean"):
                continue
            p = os.path.join(root, fn)
            body = strip_comments(open(p).read())
            for ln, line in enumerate(body.split("\n"), 1):
                if FORBIDDEN.search(line):
                    hits.append(f"{os.path.relpath(p, LEAN_DIR)}:{ln}: {line.strip()[:120]}")
    return hits


def audit_axioms(modules: List[str], theorems: List[str], tag: str) -> Dict[str, dict]:
    """`#print axioms` for every theorem; returns name -> {ok, axioms, error}."""
    if not theorems:
        return {}
    adir = os.path.join(LEAN_DIR, ".lake", "audit")
    os.makedirs(adir, exist_ok=True)
    path = os.path.join(adir, f"Audit_{tag}_{os.getpid()}.lean" if os.environ.get("VERIF_SCRATCH_RUN") else f"Audit_{tag}.lean")
    with open(path, "w") as f:
        for m in sorted(set(modules)):
            f.write(f"import {m}\n")
        for t in theorems:
            f.write(f"#print axioms {t}\n")
    with _Lock():  # the audit reads .olean files: do not race with a concurrent rebuild
        p = subprocess.run(
            ["lake", "env", "lean", path],
            cwd=LEAN_DIR,
            stdout=subprocess.PIPE,
            stderr=subprocess.STDOUT,
            text=True,
            timeout=1200,
        )
    out = p.stdout
    res: Dict[str, dict] = {}
    # messages look like: "'Name' depends on axioms: [a, b]"  or "'Name' does not depend on any axioms"
    flat = re.sub(r"\s+", " ", out)
    for t in theorems:
        m = re.search(r"'" + re.escape(t) + r"' depends on axioms: \[([^\]]*)\]", flat)
        if m:
            ax = [a.strip() for a in m.group(1).split(",") if a.strip()]
            res[t] = {"ok": set(ax) <= ALLOWED_AXIOMS, "axioms": ax}
        elif re.search(r"'" + re.escape(t) + r"' does not depend on any axioms", flat):
            res[t] = {"ok": True, "axioms": []}
        else:
            res[t] = {"ok": False, "axioms": [], "error": "not found in audit output: " + out[-600:]}
    return res


class _Proc:
    def __init__(self, exe: str):
        path = os.path.join(BIN_DIR, exe)
        if not os.path.exists(path):
            ok, out = lake_build([exe])
            if not ok:
                raise RuntimeError(f"cannot build {exe}:\n" + out[-2000:])
        self.p = subprocess.Popen([path], stdin=subprocess.PIPE, stdout=subprocess.PIPE, text=True, bufsize=1 << 20)

    def ask_many(self, lines: List[str]) -> List[str]:
        """Pipelined request/reply.  Requests are written by a helper thread while the replies are read
        here, so neither pipe can fill up and dead-lock however long the request or reply lines are."""
        import threading

        out: List[str] = []
        CH = 500
        for k in range(0, len(lines), CH):
            chunk = lines[k : k + CH]
            payload = "\n".join(chunk) + "\nflush\n"

            def _w(data=payload):
                try:
                    self.p.stdin.write(data)
                    self.p.stdin.flush()
                except Exception:
                    pass

            th = threading.Thread(target=_w, daemon=True)
            th.start()
            for _ in chunk:
                out.append(self.p.stdout.readline().rstrip("\n"))
            fl = self.p.stdout.readline().strip()
            th.join()
            assert fl == "flushed", f"driver protocol out of sync: {fl!r}"
        return out

    def close(self):
        try:
            self.p.stdin.close()
            self.p.wait(timeout=5)
        except Exception:
            self.p.kill()


class Driver:
    """The native model drivers behind pipes.  A request `<fam>.<op> …` is served by the executable
    `drv_<fam>` (one per model family, see lean/lakefile.toml); `ask_many` pipelines requests."""

    def __init__(self):
        self.procs: Dict[str, _Proc] = {}

    def _proc(self, fam: str) -> _Proc:
        if fam not in self.procs:
            self.procs[fam] = _Proc("drv_" + fam)
        return self.procs[fam]

    def ask_many(self, lines: List[str]) -> List[str]:
        if not lines:
            return []
        fams = [ln.split(".", 1)[0] for ln in lines]
        if len(set(fams)) == 1:
            return self._proc(fams[0]).ask_many(lines)
        out = [None] * len(lines)
        for fam in set(fams):
            idx = [k for k, f in enumerate(fams) if f == fam]
            rep = self._proc(fam).ask_many([lines[k] for k in idx])
            for k, r in zip(idx, rep):
                out[k] = r
        return out

    def ask(self, line: str) -> str:
        return self.ask_many([line])[0]

    def close(self):
        for p in self.procs.values():
            p.close()
        self.procs = {}


def parse_fields(reply: str) -> Dict[str, str]:
    d = {}
    for tok in reply.split():
        if "=" in tok:
            k, v = tok.split("=", 1)
            d[k] = v
        else:
            d.setdefault("_", "")
            d["_"] += tok + " "
    return d


def leanchecker(modules: List[str], timeout: int = 3000) -> Tuple[bool, str]:
    """Independent re-check of the compiled .olean files of `modules` (and their dependencies) with
    the toolchain's `leanchecker` (thorough tier)."""
    if not modules:
        return True, ""
    p = subprocess.run(["lake", "env", "leanchecker", *modules], cwd=LEAN_DIR, stdout=subprocess.PIPE,
                       stderr=subprocess.STDOUT, text=True, timeout=timeout)
    return p.returncode == 0, p.stdout[-2000:]
