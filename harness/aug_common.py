"""Helpers of the `aug` family (C15 augmentation / evaluation, C14 batch invariance): exact-stream
instances for TSP / CVRP, protocol formatting for `drv_aug`, silencing of the evaluators' chatter."""
from __future__ import annotations

import contextlib
import io
from fractions import Fraction
from typing import List, Tuple

import geom
import rl
from rl import TensorDict, torch

GRID = geom.GRID  # coordinates are k / GRID, k integer


@contextlib.contextmanager
def quiet():
    buf = io.StringIO()
    with contextlib.redirect_stdout(buf), contextlib.redirect_stderr(buf):
        yield buf


def gen_rows(rng, B: int, N: int, integral: bool = True) -> List[List[Tuple[int, int]]]:
    """B point sets of N grid points each; `integral` ones have integral pairwise distances."""
    rows = []
    for _ in range(B):
        if integral:
            rows.append(geom.gen_points(rng, N))
        else:
            rows.append([(rng.randrange(0, GRID + 1), rng.randrange(0, GRID + 1)) for _ in range(N)])
    return rows


def rows_tensor(rows) -> "torch.Tensor":
    return torch.tensor([[[x / GRID, y / GRID] for (x, y) in r] for r in rows], dtype=torch.float32)


def flat_ints(rows) -> str:
    return " ".join(f"{x} {y}" for r in rows for (x, y) in r)


def sq(p, q):
    return (p[0] - q[0]) ** 2 + (p[1] - q[1]) ** 2


def parse_pts(field: str, frac: bool = False):
    """`x,y,x,y;x,y,…` → list of rows of points (ints or Fractions)"""
    out = []
    for row in field.split(";"):
        toks = row.split(",") if row else []
        vals = [Fraction(t) if frac else int(t) for t in toks]
        out.append([(vals[k], vals[k + 1]) for k in range(0, len(vals), 2)])
    return out


def parse_rows(field: str) -> List[List[int]]:
    return [[int(t) for t in row.split(",")] if row else [] for row in field.split(";")]


def parse_ints(field: str) -> List[int]:
    return [int(t) for t in field.split(",")] if field else []


# ---- exact-stream instances for the evaluators -------------------------------------------------------

def tsp_instance(rng, n: int):
    return {"kind": 0, "pts": geom.gen_points(rng, n)}


def cvrp_instance(rng, n: int):
    C = rng.choice([4, 8, 16])
    return {"kind": 1, "pts": geom.gen_points(rng, n + 1), "C": C,
            "demand": [rng.randint(1, max(1, C // 2)) for _ in range(n)]}


def op_instance(rng, n: int):
    """orienteering: integral-distance points (node 0 = depot), prizes k/16, a length budget of (L + 1/2) grid units
    (never hit with equality) chosen per instance so that some customers may be out of reach from the depot"""
    pts = geom.gen_points(rng, n + 1)
    D = geom.dist_matrix(pts)
    d0 = sorted(D[0][1:])
    lo, hi = 2 * d0[0], 2 * d0[-1] + max(1, d0[-1])
    L = rng.randint(lo, max(lo, hi))
    return {"kind": 2, "pts": pts, "prize": [rng.randint(1, 16) for _ in range(n)], "L": L}


def to_td(insts) -> TensorDict:
    B = len(insts)
    if insts[0]["kind"] == 2:
        return TensorDict({
            "locs": torch.tensor([geom.to_unit(i["pts"][1:]) for i in insts], dtype=torch.float32),
            "depot": torch.tensor([geom.to_unit(i["pts"][:1])[0] for i in insts], dtype=torch.float32),
            "prize": torch.tensor([[p / 16 for p in i["prize"]] for i in insts], dtype=torch.float32),
            "max_length": torch.tensor([(i["L"] + 0.5) / GRID for i in insts], dtype=torch.float32),
        }, batch_size=[B])
    if insts[0]["kind"] == 0:
        return TensorDict({"locs": torch.tensor([geom.to_unit(i["pts"]) for i in insts], dtype=torch.float32)}, batch_size=[B])
    return TensorDict({
        "locs": torch.tensor([geom.to_unit(i["pts"][1:]) for i in insts], dtype=torch.float32),
        "depot": torch.tensor([geom.to_unit(i["pts"][:1])[0] for i in insts], dtype=torch.float32),
        "demand": torch.tensor([[d / i["C"] for d in i["demand"]] for i in insts], dtype=torch.float32),
    }, batch_size=[B])


def D_flat(inst) -> str:
    """the instance section of the driver protocol: distance matrix, for OP followed by the node prizes and the budget"""
    D = geom.D_ticks(inst["pts"])
    out = " ".join(str(v) for row in D for v in row)
    if inst["kind"] == 2:
        out += " 0 " + " ".join(str(p * (rl.SCALE // 16)) for p in inst["prize"])
        out += f" {(2 * inst['L'] + 1) * (geom.TICKS_PER_GRID // 2)}"
    return out


def cost_line(inst, actions) -> str:
    m = len(inst["pts"])
    return f"aug.cost {inst['kind']} {m} | {D_flat(inst)} | " + " ".join(map(str, actions))


def reward_ticks(x) -> int:
    return rl.ticks(x)
